"""C14 -- saving and restoring grids and fields loses nothing.

Static rules (nothing of the repository is imported or run):

(a) grids      -- may-dataflow over every concrete grid constructor: each leaf of the
                  identity attributes (those compared by ``GridBase.__eq__``) that is
                  filled from a constructor parameter must be read by ``state``; the
                  keys of ``state``, the keys popped by ``from_state`` and the constructor
                  parameters coincide and are bound name-to-name; ``copy``,
                  ``__deepcopy__``, ``state_serialized``/``from_state`` and pickling
                  route through them.
(b) fields     -- per field family the key table written by ``attributes`` equals what
                  ``from_state`` consumes, every key has an inverse (de)serialiser pair
                  in ``attributes_serialized``/``unserialize_attributes``; the storage
                  classes read the info key they write.
(c) components -- every tensor component count ``X**rank``, ``(X,)*rank``,
                  ``(X, X, *grid_shape)`` has ``X`` typed ``dim``.
(d) collection -- the slice cursor of ``FieldCollection.from_data`` / ``__init__`` is
                  cumulative in field order (extracted as a symbolic recurrence).
"""

from __future__ import annotations

import ast

import sympy as sp

from ..core import AnalysisError, Report
from ..index import ClassInfo, FuncInfo, Index, dotted, get_index, strip_doc
from ..ispace_lite import (
    AXES,
    DIM,
    DictV,
    HeapFlow,
    LoopSummary,
    Path,
    PyList,
    SliceV,
    SymEval,
    component_count_sites,
    covered,
    deps_of,
    func_params,
    has_havoc,
    head_name,
    leaves,
    positional_args,
    reached,
    unwrap,
)

GRID_ANCHORS = [
    ("pde/grids/cartesian.py", "CartesianGrid"),
    ("pde/grids/cartesian.py", "UnitGrid"),
    ("pde/grids/spherical.py", "PolarSymGrid"),
    ("pde/grids/spherical.py", "SphericalSymGrid"),
    ("pde/grids/cylindrical.py", "CylindricalSymGrid"),
]
PICKLE_HOOKS = ("__setstate__", "__reduce__", "__reduce_ex__", "__getnewargs__", "__getnewargs_ex__")


# ----------------------------------------------------------------------------- helpers
def is_abstract(c: ClassInfo) -> bool:
    """declared abstract: `metaclass=ABCMeta` on the class statement itself"""
    return any(k.arg == "metaclass" and dotted(k.value).split(".")[-1] == "ABCMeta" for k in c.node.keywords)


def is_self_class(e: ast.expr, selfname: str = "self") -> bool:
    """`self.__class__` or `type(self)`"""
    if isinstance(e, ast.Attribute) and e.attr == "__class__" and isinstance(e.value, ast.Name) and e.value.id == selfname:
        return True
    return isinstance(e, ast.Call) and dotted(e.func) == "type" and len(e.args) == 1 and isinstance(e.args[0], ast.Name) and e.args[0].id == selfname


def is_self_class_name(e: ast.expr, selfname: str = "self") -> bool:
    return isinstance(e, ast.Attribute) and e.attr == "__name__" and is_self_class(e.value, selfname)


def const_str(e: ast.AST | None) -> str | None:
    return e.value if isinstance(e, ast.Constant) and isinstance(e.value, str) else None


def local_defs(f: FuncInfo) -> dict[str, list[ast.expr]]:
    out: dict[str, list[ast.expr]] = {}
    for n in ast.walk(f.node):
        if isinstance(n, ast.Assign):
            for t in n.targets:
                if isinstance(t, ast.Name):
                    out.setdefault(t.id, []).append(n.value)
        elif isinstance(n, ast.AnnAssign) and isinstance(n.target, ast.Name) and n.value is not None:
            out.setdefault(n.target.id, []).append(n.value)
    return out


def resolve_local(e: ast.expr, defs: dict[str, list[ast.expr]], depth: int = 4) -> ast.expr:
    """follow a local that has exactly one definition"""
    while depth and isinstance(e, ast.Name) and len(defs.get(e.id, [])) == 1:
        e = defs[e.id][0]
        depth -= 1
    return e


def init_params(init: FuncInfo) -> list[str]:
    return func_params(init)


# ============================================================================= (a) grids
def identity_attributes(ix: Index, rep: Report) -> list[str]:
    """attributes that define grid equality, read off ``GridBase.__eq__``"""
    base = ix.cls("pde/grids/base.py", "GridBase")
    eq = ix.func("pde/grids/base.py", "GridBase.__eq__")
    rep.saw("functions", eq.ref)
    other = func_params(eq)[0]
    props: list[str] = []
    for n in ast.walk(eq.node):
        if isinstance(n, ast.Compare) and len(n.ops) == 1 and isinstance(n.ops[0], ast.Eq):
            a, b = n.left, n.comparators[0]
            if isinstance(a, ast.Attribute) and isinstance(b, ast.Attribute) and a.attr == b.attr:
                names = {dotted(a.value), dotted(b.value)}
                if names == {"self", other}:
                    props.append(a.attr)
    attrs = []
    for p in props:
        g = base.find_method(p, "getter")
        if g is None:
            raise AnalysisError(f"{eq.ref}: compared attribute `{p}` is not a property of GridBase")
        body = strip_doc(g.node.body)
        if len(body) == 1 and isinstance(body[0], ast.Return) and isinstance(body[0].value, ast.Attribute) and dotted(body[0].value.value) == "self":
            attrs.append(body[0].value.attr)
        else:
            raise AnalysisError(f"{g.ref}: identity property is not a plain attribute read")
    rep.floor("identity attributes compared by GridBase.__eq__", len(attrs), 3)
    return attrs


def parse_grid_from_state(fs: FuncInfo, init: FuncInfo) -> tuple[dict[str, tuple[str, bool]], list[str]]:
    """-> ({constructor parameter: (state key, has default)}, problems)"""
    a = fs.node.args
    names = [p.arg for p in a.posonlyargs + a.args]
    if len(names) != 2:
        raise AnalysisError(f"{fs.ref}: expected (cls, state)")
    clsname, stname = names
    aliases = {stname}
    for n in ast.walk(fs.node):
        if isinstance(n, ast.Assign) and len(n.targets) == 1 and isinstance(n.targets[0], ast.Name):
            v = n.value
            src = None
            if isinstance(v, ast.Call) and isinstance(v.func, ast.Attribute) and v.func.attr == "copy" and not v.args:
                src = v.func.value
            elif isinstance(v, ast.Call) and dotted(v.func) == "dict" and len(v.args) == 1:
                src = v.args[0]
            elif isinstance(v, ast.Name):
                src = v
            if isinstance(src, ast.Name) and src.id in aliases:
                aliases.add(n.targets[0].id)
    ctor = [n for n in ast.walk(fs.node) if isinstance(n, ast.Call) and isinstance(n.func, ast.Name) and n.func.id in (clsname, fs.cls.name if fs.cls else "")]
    if len(ctor) != 1:
        raise AnalysisError(f"{fs.ref}: expected exactly one constructor call, found {len(ctor)}")
    call = ctor[0]
    params = init_params(init)
    mapping: dict[str, tuple[str, bool]] = {}
    problems: list[str] = []

    def popped(v: ast.expr) -> tuple[str, bool] | None:
        if isinstance(v, ast.Call) and isinstance(v.func, ast.Attribute) and v.func.attr in ("pop", "get") and isinstance(v.func.value, ast.Name) and v.func.value.id in aliases and v.args:
            k = const_str(v.args[0])
            if k is not None:
                return k, len(v.args) > 1 or bool(v.keywords)
        if isinstance(v, ast.Subscript) and isinstance(v.value, ast.Name) and v.value.id in aliases:
            k = const_str(v.slice)
            if k is not None:
                return k, False
        return None

    for i, arg in enumerate(call.args):
        if isinstance(arg, ast.Starred):
            raise AnalysisError(f"{fs.ref}: starred constructor argument")
        if i >= len(params):
            problems.append(f"too many positional arguments for {init.ref}")
            continue
        k = popped(arg)
        if k is None:
            problems.append(f"argument for `{params[i]}` is not read from the state")
        else:
            mapping[params[i]] = k
    for kw in call.keywords:
        if kw.arg is None:
            if isinstance(kw.value, ast.Name) and kw.value.id in aliases:
                mapping["**"] = ("**", False)
                continue
            raise AnalysisError(f"{fs.ref}: `**` of something that is not the state")
        k = popped(kw.value)
        if k is None:
            problems.append(f"argument for `{kw.arg}` is not read from the state")
        else:
            mapping[kw.arg] = k
    return mapping, problems


def rule_grid_state(rep: Report, ix: Index) -> dict:
    base = ix.cls("pde/grids/base.py", "GridBase")
    identity = identity_attributes(ix, rep)
    for rel, name in GRID_ANCHORS:
        ix.cls(rel, name)
    concrete = [c for c in ix.subclasses(base, strict=True) if not is_abstract(c) and c.module.rel.startswith("pde/grids/")]
    rep.floor("concrete grid classes", len(concrete), 5)
    n_primary = 0
    init_attrs: set[str] = set()
    for c in concrete:
        rep.saw("grid classes", c.ref)
        S = c.find_method("state", "getter")
        Fs = c.find_method("from_state")
        I = c.find_method("__init__")
        if S is None or Fs is None or I is None:
            raise AnalysisError(f"{c.ref}: state/from_state/__init__ not resolvable")
        for f in (S, Fs, I):
            rep.saw("functions", f.ref)
        mro = c.mro()
        # -- the (de)serialisers must belong to the class that defines the constructor
        for f, what in ((S, "state"), (Fs, "from_state")):
            if mro.index(f.cls) > mro.index(I.cls):
                rep.violation(
                    "C14.state-keys",
                    f"{I.ref}::{what}-inherited",
                    f"{c.name} uses the constructor of {I.cls.name} but inherits `{what}` from {f.cls.name}, which describes another parameter list",
                    line=I.node.lineno,
                )
        if Fs.cls is base:
            rep.violation("C14.state-keys", f"{c.ref}::from_state", f"{c.name} does not define `from_state`; GridBase.from_state would dispatch to itself", line=c.node.lineno)
            continue
        hf = HeapFlow(ix, c, identity)
        st, _ = hf.run_init()
        init_attrs |= set(st.heap)
        sv = unwrap(hf.eval_property("state", st.heap))
        if not isinstance(sv, DictV):
            raise AnalysisError(f"{S.ref}: `state` does not evaluate to a dictionary with constant keys")
        params = init_params(I)
        state_keys = list(sv.items)
        mapping, problems = parse_grid_from_state(Fs, I)
        for pr in problems:
            rep.violation("C14.state-key-binding", f"{Fs.ref}::call", pr, line=Fs.node.lineno)
        fs_keys = sorted({k for k, _ in mapping.values() if k != "**"})
        ok_keys = set(state_keys) == set(params)
        rep.oblige(f"{c.name}:state-keys=constructor-parameters", ok_keys, {"state": state_keys, "params": params})
        if not ok_keys:
            rep.violation(
                "C14.state-keys",
                f"{S.ref}::keys",
                f"keys of `state` {sorted(state_keys)} differ from the constructor parameters {sorted(params)} of {I.ref} "
                f"(missing {sorted(set(params) - set(state_keys))}, extra {sorted(set(state_keys) - set(params))})",
                line=S.node.lineno,
            )
        if "**" in mapping:
            fs_ok = True  # cls(**state): every key goes to the parameter of the same name
        else:
            fs_ok = set(fs_keys) == set(state_keys)
        rep.oblige(f"{c.name}:from_state-keys=state-keys", fs_ok, {"from_state": fs_keys, "state": state_keys})
        if not fs_ok:
            rep.violation(
                "C14.state-keys",
                f"{Fs.ref}::keys",
                f"`from_state` consumes {fs_keys} but `state` of {c.name} writes {sorted(state_keys)}",
                line=Fs.node.lineno,
            )
        for p, (k, dflt) in mapping.items():
            if p == "**":
                continue
            okb = p == k
            rep.oblige(f"{c.name}:from_state:{p}<-{k}", okb)
            if not okb:
                rep.violation("C14.state-key-binding", f"{Fs.ref}::param={p}", f"constructor parameter `{p}` is filled from state key `{k}`", line=Fs.node.lineno)
        # -- coverage of identity
        seen_all = reached([sv])
        seen_key = {k: reached([v]) for k, v in sv.items.items()}
        table = []
        for a in identity:
            v = st.heap.get(a)
            if v is None:
                v = hf.self_attr(a, st.heap, 0)
            for path, leaf in leaves(v, a):
                d = deps_of(unwrap(leaf))
                pdeps = sorted(x[2:] for x in d if x.startswith("p:"))
                primary = bool(pdeps)
                cov = covered(leaf, seen_all)
                table.append({"leaf": path, "filled_from": pdeps or sorted(d) or ["constant"], "read_by_state": cov})
                if not primary:
                    continue
                n_primary += 1
                rep.oblige(f"{c.name}:{path}:read-by-state", cov, {"filled_from": pdeps})
                if not cov:
                    rep.violation(
                        "C14.state-covers-identity",
                        f"{S.ref}::{path}",
                        f"`{path}` of {c.name} is filled from constructor parameter(s) {pdeps} in {I.ref} but no value stored by `state` "
                        f"reads it: {c.name}.from_state(g.state) / g.copy() / deepcopy cannot restore it",
                        line=S.node.lineno,
                        cls=c.name,
                    )
                    continue
                keys_for = [p for p in pdeps if p in seen_key]
                if keys_for and not any(covered(leaf, seen_key[p]) for p in keys_for):
                    rep.violation(
                        "C14.state-key-binding",
                        f"{S.ref}::key={keys_for[0]}",
                        f"`{path}` of {c.name} is filled from parameter(s) {pdeps}, but the state entries of these keys do not read it "
                        f"(it is stored under another key, so `from_state` hands it to the wrong parameter)",
                        line=S.node.lineno,
                    )
        rep.sample(
            {
                "class": c.name,
                "constructor": I.ref,
                "constructor_params": params,
                "state_keys": state_keys,
                "from_state": {p: k for p, (k, _) in mapping.items()},
                "identity": table,
            }
        )
        if hf.unresolved:
            rep.note(f"{c.name}: treated as opaque in the constructor analysis: {sorted(set(hf.unresolved))}")
    rep.floor("identity leaves filled from constructor parameters", n_primary, 12)
    return {"concrete": concrete, "init_attrs": init_attrs, "identity": identity}


def rule_grid_routes(rep: Report, ix: Index, info: dict) -> None:
    rel = "pde/grids/base.py"
    base = ix.cls(rel, "GridBase")
    copy = ix.func(rel, "GridBase.copy")
    deep = ix.func(rel, "GridBase.__deepcopy__")
    gs = ix.func(rel, "GridBase.__getstate__")
    ser = ix.func(rel, "GridBase.state_serialized")
    fs = ix.func(rel, "GridBase.from_state")
    isub = ix.func(rel, "GridBase.__init_subclass__")
    for f in (copy, deep, gs, ser, fs, isub):
        rep.saw("functions", f.ref)

    def copy_route_ok(f: FuncInfo) -> bool:
        defs = local_defs(f)
        rets = [n for n in ast.walk(f.node) if isinstance(n, ast.Return)]
        if len(rets) != 1 or rets[0].value is None:
            return False
        v = resolve_local(rets[0].value, defs)
        if not isinstance(v, ast.Call):
            return False

        def is_state(e):
            e = resolve_local(e, defs)
            return isinstance(e, ast.Attribute) and e.attr == "state" and dotted(e.value) == "self"

        if isinstance(v.func, ast.Attribute) and v.func.attr == "from_state" and is_self_class(v.func.value):
            return len(v.args) == 1 and not v.keywords and is_state(v.args[0])
        if is_self_class(v.func):  # cls(**self.state) is the same map once the key sets agree
            return not v.args and len(v.keywords) == 1 and v.keywords[0].arg is None and is_state(v.keywords[0].value)
        return False

    ok = copy_route_ok(copy)
    rep.oblige("GridBase.copy:routes-through-state", ok)
    if not ok:
        rep.violation("C14.copy-route", f"{copy.ref}::return", "`copy` does not return `type(self).from_state(self.state)`", line=copy.node.lineno)
    # __copy__ alias
    alias = base.attrs.get("__copy__")
    m = base.find_method("__copy__")
    ok = (isinstance(alias, ast.Name) and alias.id == "copy") or (m is not None and copy_route_ok(m))
    rep.oblige("GridBase.__copy__:is-copy", ok)
    if not ok:
        rep.violation("C14.copy-route", f"{base.ref}::__copy__", "`__copy__` is not bound to `copy`", line=base.node.lineno)
    # __deepcopy__ returns self.copy()
    defs = local_defs(deep)
    rets = [n for n in ast.walk(deep.node) if isinstance(n, ast.Return)]
    ok = False
    if len(rets) == 1 and rets[0].value is not None:
        v = resolve_local(rets[0].value, defs)
        ok = isinstance(v, ast.Call) and isinstance(v.func, ast.Attribute) and v.func.attr == "copy" and dotted(v.func.value) == "self" and not v.args
    rep.oblige("GridBase.__deepcopy__:returns-copy", ok)
    if not ok:
        rep.violation("C14.copy-route", f"{deep.ref}::return", "`__deepcopy__` does not return `self.copy()`", line=deep.node.lineno)
    # overrides in subclasses
    for c in ix.subclasses(base, strict=True):
        for name in ("copy", "__copy__", "__deepcopy__"):
            for f in c.methods.get(name, []):
                rep.saw("functions", f.ref)
                if name == "copy" and copy_route_ok(f):
                    continue
                rep.violation("C14.copy-route", f"{f.ref}::override", f"{c.name} overrides `{name}` without routing through `from_state(self.state)`", line=f.node.lineno)
        for name in PICKLE_HOOKS + ("__getstate__",):
            if c.methods.get(name):
                raise AnalysisError(f"{c.ref} defines `{name}`: pickling of this class is outside the grammar of the rule")
    # pickling: __getstate__ keeps the whole __dict__ except attributes no constructor assigns
    check_getstate(rep, gs, info["init_attrs"], "GridBase")
    for name in PICKLE_HOOKS:
        if base.methods.get(name):
            raise AnalysisError(f"{base.ref} defines `{name}`: outside the grammar of the pickling rule")
    # JSON route: state_serialized writes 'class', from_state pops the same key and dispatches
    check_class_dispatch(rep, ix, ser, [fs], isub, "GridBase")
    # state_serialized must serialise `self.state` (+ class)
    defs = local_defs(ser)
    rets = [n for n in ast.walk(ser.node) if isinstance(n, ast.Return)]
    ok = False
    if len(rets) == 1 and isinstance(rets[0].value, ast.Call) and dotted(rets[0].value.func) == "json.dumps" and len(rets[0].value.args) == 1:
        v = resolve_local(rets[0].value.args[0], defs)
        ok = isinstance(v, ast.Attribute) and v.attr == "state" and dotted(v.value) == "self"
    rep.oblige("GridBase.state_serialized:dumps-state", ok)
    if not ok:
        rep.violation("C14.class-dispatch", f"{ser.ref}::payload", "`state_serialized` does not return `json.dumps` of `self.state`", line=ser.node.lineno)
    # from_state(str) must json.loads the same payload
    loads = [n for n in ast.walk(fs.node) if isinstance(n, ast.Call) and dotted(n.func) == "json.loads"]
    ok = len(loads) == 1 and len(loads[0].args) == 1 and isinstance(loads[0].args[0], ast.Name) and loads[0].args[0].id == func_params(fs)[0]
    rep.oblige("GridBase.from_state:loads-json", ok)
    if not ok:
        rep.violation("C14.class-dispatch", f"{fs.ref}::payload", "`from_state` does not decode a string state with `json.loads(state)`", line=fs.node.lineno)


def check_getstate(rep: Report, gs: FuncInfo, init_attrs: set[str], who: str) -> None:
    """__getstate__ = copy of __dict__ minus keys that no constructor assigns"""
    defs = local_defs(gs)
    rets = [n for n in ast.walk(gs.node) if isinstance(n, ast.Return)]
    ok = False
    var = None
    if len(rets) == 1 and isinstance(rets[0].value, ast.Name):
        var = rets[0].value.id
        v = resolve_local(rets[0].value, defs)
        ok = isinstance(v, ast.Call) and isinstance(v.func, ast.Attribute) and v.func.attr == "copy" and dotted(v.func.value) == "self.__dict__"
    rep.oblige(f"{who}.__getstate__:copies-__dict__", ok)
    if not ok:
        rep.violation("C14.pickle-state", f"{gs.ref}::return", "`__getstate__` does not return a copy of `self.__dict__`", line=gs.node.lineno)
        return
    for n in ast.walk(gs.node):
        key = None
        if isinstance(n, ast.Call) and isinstance(n.func, ast.Attribute) and n.func.attr == "pop" and dotted(n.func.value) == var and n.args:
            key = const_str(n.args[0])
            if key is None:
                raise AnalysisError(f"{gs.ref}: non-constant key removed from the pickled state")
        elif isinstance(n, ast.Delete):
            for t in n.targets:
                if isinstance(t, ast.Subscript) and dotted(t.value) == var:
                    key = const_str(t.slice)
        elif isinstance(n, ast.Assign) and any(isinstance(t, ast.Subscript) and dotted(t.value) == var for t in n.targets):
            raise AnalysisError(f"{gs.ref}: pickled state is rewritten; outside the grammar")
        if key is not None:
            bad = key in init_attrs
            rep.oblige(f"{who}.__getstate__:drops:{key}", not bad)
            if bad:
                rep.violation("C14.pickle-state", f"{gs.ref}::pop={key}", f"`__getstate__` removes `{key}`, which the constructor assigns: pickling loses it", line=n.lineno)


def check_class_dispatch(rep: Report, ix: Index, writer: FuncInfo, readers: list[FuncInfo], isub: FuncInfo, who: str) -> None:
    """the class tag: written as `self.__class__.__name__` under key K, read under the same
    K, looked up in the registry that `__init_subclass__` fills under `cls.__name__`"""
    wkey = None
    for n in ast.walk(writer.node):
        if isinstance(n, ast.Assign) and len(n.targets) == 1 and isinstance(n.targets[0], ast.Subscript) and is_self_class_name(n.value):
            wkey = const_str(n.targets[0].slice)
        elif isinstance(n, ast.Dict):
            for k, v in zip(n.keys, n.values):
                if is_self_class_name(v):
                    wkey = const_str(k)
    ok = wkey is not None
    rep.oblige(f"{who}:class-tag-written", ok, wkey)
    if not ok:
        rep.violation("C14.class-dispatch", f"{writer.ref}::class-tag", "no entry holding `self.__class__.__name__` is written", line=writer.node.lineno)
        return
    for r in readers:
        a0 = func_params(r)[0]
        keys = set()
        tagvars = set()
        for n in ast.walk(r.node):
            if isinstance(n, ast.Assign) and len(n.targets) == 1 and isinstance(n.targets[0], ast.Name):
                v = n.value
                if isinstance(v, ast.Call) and dotted(v.func) == "json.loads" and len(v.args) == 1:
                    v = v.args[0]
                k = None
                if isinstance(v, ast.Call) and isinstance(v.func, ast.Attribute) and v.func.attr == "pop" and dotted(v.func.value) == a0 and v.args:
                    k = const_str(v.args[0])
                elif isinstance(v, ast.Subscript) and dotted(v.value) == a0:
                    k = const_str(v.slice)
                if k is not None:
                    keys.add(k)
                    tagvars.add(n.targets[0].id)
        ok = keys == {wkey}
        rep.oblige(f"{r.qualname}:class-tag-key", ok, sorted(keys))
        if not ok:
            rep.violation("C14.class-dispatch", f"{r.ref}::class-tag", f"reads the class tag under {sorted(keys)} but it is written under `{wkey}` by {writer.ref}", line=r.node.lineno)
        disp = [
            n
            for n in ast.walk(r.node)
            if isinstance(n, ast.Subscript) and isinstance(n.value, ast.Attribute) and n.value.attr == "_subclasses" and isinstance(n.slice, ast.Name) and n.slice.id in tagvars
        ]
        ok = len(disp) >= 1
        rep.oblige(f"{r.qualname}:dispatch-by-tag", ok)
        if not ok:
            rep.violation("C14.class-dispatch", f"{r.ref}::dispatch", "the class tag is not used to look up `_subclasses`", line=r.node.lineno)
    reg = [
        n
        for n in ast.walk(isub.node)
        if isinstance(n, ast.Assign)
        and len(n.targets) == 1
        and isinstance(n.targets[0], ast.Subscript)
        and isinstance(n.targets[0].value, ast.Attribute)
        and n.targets[0].value.attr == "_subclasses"
    ]
    ok = len(reg) == 1 and dotted(reg[0].targets[0].slice) == "cls.__name__" and dotted(reg[0].value) == "cls"
    rep.oblige(f"{who}:registry-keyed-by-__name__", ok)
    if not ok:
        rep.violation("C14.class-dispatch", f"{isub.ref}::registry", "`_subclasses` is not filled as `_subclasses[cls.__name__] = cls`", line=isub.node.lineno)


# ============================================================================= (b) fields
JSON, GRIDSTATE, DTYPESTR, FIELDLIST = "json", "grid-state", "dtype.str", "field-list"
KIND_PAIR = {
    # kind of the attribute value -> (serialiser, deserialiser) that are inverse on it
    "classname": (JSON, JSON),
    "label": (JSON, JSON),
    "grid": (GRIDSTATE, GRIDSTATE),
    "dtype": (DTYPESTR, JSON),
    "fields": (FIELDLIST, FIELDLIST),
    "plain": (JSON, JSON),
}


def attributes_table(ix: Index, c: ClassInfo, start_after: ClassInfo | None = None) -> tuple[dict[str, ast.expr], FuncInfo]:
    """key -> value expression of the `attributes` property as seen by class ``c``"""
    mro = c.mro()
    if start_after is not None:
        mro = mro[mro.index(start_after) + 1 :]
    f = None
    for k in mro:
        for g in k.methods.get("attributes", []):
            if not any(d.endswith(".setter") for d in g.decorator_names):
                f = g
                break
        if f:
            break
    if f is None:
        raise AnalysisError(f"{c.ref}: no `attributes` property")
    env: dict[str, dict[str, ast.expr]] = {}

    def value_of(e: ast.expr) -> dict[str, ast.expr] | None:
        if isinstance(e, ast.Dict):
            out = {}
            for k, v in zip(e.keys, e.values):
                ks = const_str(k)
                if ks is None:
                    raise AnalysisError(f"{f.ref}: non-constant attribute key")
                out[ks] = v
            return out
        if isinstance(e, ast.Attribute) and e.attr == "attributes" and isinstance(e.value, ast.Call) and dotted(e.value.func) == "super":
            return dict(attributes_table(ix, c, start_after=f.cls)[0])
        if isinstance(e, ast.Name) and e.id in env:
            return env[e.id]
        if isinstance(e, ast.Call) and isinstance(e.func, ast.Attribute) and e.func.attr == "copy" and isinstance(e.func.value, ast.Name) and e.func.value.id in env:
            return dict(env[e.func.value.id])
        return None

    for st in strip_doc(f.node.body):
        if isinstance(st, (ast.Assign, ast.AnnAssign)):
            tgt = st.targets[0] if isinstance(st, ast.Assign) else st.target
            if isinstance(st, ast.Assign) and len(st.targets) != 1:
                raise AnalysisError(f"{f.ref}: multiple assignment targets")
            if isinstance(tgt, ast.Name):
                v = value_of(st.value)
                if v is None:
                    raise AnalysisError(f"{f.ref}: cannot evaluate `{ast.unparse(st.value)[:40]}` as an attribute table")
                env[tgt.id] = v
                continue
            if isinstance(tgt, ast.Subscript) and isinstance(tgt.value, ast.Name) and tgt.value.id in env and const_str(tgt.slice) is not None:
                env[tgt.value.id][const_str(tgt.slice)] = st.value
                continue
        elif isinstance(st, ast.Delete):
            done = True
            for t in st.targets:
                if isinstance(t, ast.Subscript) and isinstance(t.value, ast.Name) and t.value.id in env and const_str(t.slice) is not None:
                    env[t.value.id].pop(const_str(t.slice), None)
                else:
                    done = False
            if done:
                continue
        elif isinstance(st, ast.Expr) and isinstance(st.value, ast.Call) and isinstance(st.value.func, ast.Attribute) and st.value.func.attr == "pop":
            r = st.value.func.value
            if isinstance(r, ast.Name) and r.id in env and st.value.args and const_str(st.value.args[0]) is not None:
                env[r.id].pop(const_str(st.value.args[0]), None)
                continue
        elif isinstance(st, ast.Return):
            v = value_of(st.value) if st.value is not None else None
            if v is None:
                raise AnalysisError(f"{f.ref}: return value is not an attribute table")
            return v, f
        raise AnalysisError(f"{f.ref}: statement `{ast.unparse(st)[:50]}` outside the grammar of the attribute-table rule")
    raise AnalysisError(f"{f.ref}: no return")


def value_kind(e: ast.expr) -> str:
    if is_self_class_name(e):
        return "classname"
    if isinstance(e, ast.Attribute) and dotted(e.value) == "self":
        return {"grid": "grid", "dtype": "dtype", "label": "label"}.get(e.attr, "plain")
    if isinstance(e, ast.ListComp) and isinstance(e.elt, ast.Attribute) and e.elt.attr == "attributes" and len(e.generators) == 1:
        g = e.generators[0]
        if isinstance(g.iter, ast.Attribute) and g.iter.attr == "fields" and dotted(g.iter.value) == "self" and dotted(e.elt.value) == dotted(g.target):
            return "fields"
    return "plain"


def parse_dispatch(f: FuncInfo, source_ok) -> tuple[dict[str, ast.expr], ast.expr | None, str, str]:
    """`for key, value in <source>.items(): if key == 'a': res[key] = E_a ... else: res[key] = E`
    -> ({key: expr}, default expr, key name, value name); locals inside a branch are inlined"""
    loops = [n for n in ast.walk(f.node) if isinstance(n, ast.For)]
    loops = [n for n in loops if isinstance(n.iter, ast.Call) and isinstance(n.iter.func, ast.Attribute) and n.iter.func.attr == "items" and source_ok(n.iter.func.value)]
    if len(loops) != 1:
        raise AnalysisError(f"{f.ref}: expected one loop over the items of the attribute dictionary, found {len(loops)}")
    loop = loops[0]
    if not (isinstance(loop.target, ast.Tuple) and len(loop.target.elts) == 2 and all(isinstance(t, ast.Name) for t in loop.target.elts)):
        raise AnalysisError(f"{f.ref}: loop target is not (key, value)")
    kname, vname = (t.id for t in loop.target.elts)
    rets = [n for n in ast.walk(f.node) if isinstance(n, ast.Return) and isinstance(n.value, ast.Name)]
    if len(rets) != 1:
        raise AnalysisError(f"{f.ref}: expected a single `return <dict>`")
    res = rets[0].value.id
    branches: dict[str, ast.expr] = {}
    default: list[ast.expr | None] = [None]

    def branch_value(body: list[ast.stmt]) -> ast.expr:
        local: dict[str, ast.expr] = {}
        out = None
        for st in body:
            if isinstance(st, ast.Assign) and len(st.targets) == 1:
                t = st.targets[0]
                if isinstance(t, ast.Name):
                    local[t.id] = st.value
                    continue
                if isinstance(t, ast.Subscript) and dotted(t.value) == res and isinstance(t.slice, ast.Name) and t.slice.id == kname:
                    out = st.value
                    continue
            raise AnalysisError(f"{f.ref}: branch statement `{ast.unparse(st)[:50]}` outside the grammar")
        if out is None:
            raise AnalysisError(f"{f.ref}: a branch does not store `{res}[{kname}]` -- the key would be dropped")

        class Inline(ast.NodeTransformer):
            def visit_Name(self, n):
                return local[n.id] if isinstance(n.ctx, ast.Load) and n.id in local else n

        import copy as _copy

        return Inline().visit(_copy.deepcopy(out))

    def walk_chain(body: list[ast.stmt]) -> None:
        if len(body) == 1 and isinstance(body[0], ast.If):
            node = body[0]
            t = node.test
            keys: list[str] = []
            if isinstance(t, ast.Compare) and len(t.ops) == 1 and isinstance(t.left, ast.Name) and t.left.id == kname:
                if isinstance(t.ops[0], ast.Eq) and const_str(t.comparators[0]) is not None:
                    keys = [const_str(t.comparators[0])]
                elif isinstance(t.ops[0], ast.In) and isinstance(t.comparators[0], (ast.Tuple, ast.List, ast.Set)):
                    keys = [const_str(x) for x in t.comparators[0].elts]
            if not keys or any(k is None for k in keys):
                raise AnalysisError(f"{f.ref}: dispatch test `{ast.unparse(t)}` outside the grammar")
            v = branch_value(node.body)
            for k in keys:
                branches.setdefault(k, v)
            if node.orelse:
                walk_chain(node.orelse)
            return
        default[0] = branch_value(body)

    walk_chain(loop.body)
    return branches, default[0], kname, vname


def ser_kind(e: ast.expr, vname: str) -> str:
    if isinstance(e, ast.Attribute) and e.attr == "state_serialized" and dotted(e.value) == vname:
        return GRIDSTATE
    if isinstance(e, ast.Call) and dotted(e.func) == "json.dumps" and len(e.args) == 1 and not e.keywords:
        a = e.args[0]
        if isinstance(a, ast.Name) and a.id == vname:
            return JSON
        if isinstance(a, ast.Attribute) and a.attr == "str" and dotted(a.value) == vname:
            return DTYPESTR
        if isinstance(a, ast.ListComp) and isinstance(a.elt, ast.Attribute) and a.elt.attr == "attributes_serialized" and len(a.generators) == 1:
            g = a.generators[0]
            if isinstance(g.iter, ast.Attribute) and g.iter.attr == "fields" and dotted(g.iter.value) == "self" and dotted(a.elt.value) == dotted(g.target) and not g.ifs:
                return FIELDLIST
    return "unrecognised: " + ast.unparse(e)[:60]


def deser_kind(e: ast.expr, vname: str) -> str:
    if isinstance(e, ast.Call) and dotted(e.func) == "json.loads" and len(e.args) == 1 and dotted(e.args[0]) == vname and not e.keywords:
        return JSON
    if isinstance(e, ast.Call) and dotted(e.func) == "GridBase.from_state" and len(e.args) == 1 and dotted(e.args[0]) == vname:
        return GRIDSTATE
    if isinstance(e, ast.ListComp) and len(e.generators) == 1 and not e.generators[0].ifs:
        g = e.generators[0]
        it = g.iter
        if isinstance(it, ast.Call) and dotted(it.func) == "json.loads" and len(it.args) == 1 and dotted(it.args[0]) == vname:
            el = e.elt
            if isinstance(el, ast.Call) and dotted(el.func) == "FieldBase.unserialize_attributes" and len(el.args) == 1 and dotted(el.args[0]) == dotted(g.target):
                return FIELDLIST
    return "unrecognised: " + ast.unparse(e)[:60]


def parse_consumption(f: FuncInfo) -> dict:
    """how a `from_state(cls, attributes, data)` consumes the attribute dictionary"""
    names = func_params(f)
    aname = names[0]
    popped: dict[str, bool] = {}  # key -> guarded by `if key in attributes`
    read: set[str] = set()
    added: set[str] = set()
    star_calls: list[ast.Call] = []
    guards: dict[int, set[str]] = {}

    def visit(n: ast.AST, guarded: frozenset) -> None:
        if isinstance(n, ast.If):
            t = n.test
            g = guarded
            if isinstance(t, ast.Compare) and len(t.ops) == 1 and isinstance(t.ops[0], ast.In) and const_str(t.left) is not None and dotted(t.comparators[0]) == aname:
                g = guarded | {const_str(t.left)}
            visit(n.test, guarded)
            for s in n.body:
                visit(s, g)
            for s in n.orelse:
                visit(s, guarded)
            return
        if isinstance(n, ast.Call):
            if isinstance(n.func, ast.Attribute) and dotted(n.func.value) == aname and n.args and const_str(n.args[0]) is not None:
                k = const_str(n.args[0])
                if n.func.attr == "pop":
                    popped[k] = k in guarded or len(n.args) > 1
                elif n.func.attr == "get":
                    read.add(k)
            if any(kw.arg is None and dotted(kw.value) == aname for kw in n.keywords):
                star_calls.append(n)
        if isinstance(n, ast.Subscript) and dotted(n.value) == aname and const_str(n.slice) is not None:
            (added if isinstance(n.ctx, ast.Store) else read).add(const_str(n.slice))
        for c in ast.iter_child_nodes(n):
            visit(c, guarded)

    for s in f.node.body:
        visit(s, frozenset())
    return {"param": aname, "popped": popped, "read": read, "added": added, "star_calls": star_calls}


def ctor_call_in(f: FuncInfo) -> ast.Call | None:
    clsname = [p.arg for p in f.node.args.args][0]
    calls = [n for n in ast.walk(f.node) if isinstance(n, ast.Call) and isinstance(n.func, ast.Name) and n.func.id == clsname]
    return calls[0] if len(calls) == 1 else None


def rule_field_attrs(rep: Report, ix: Index) -> dict:
    fb = ix.cls("pde/fields/base.py", "FieldBase")
    dfb = ix.cls("pde/fields/datafield_base.py", "DataFieldBase")
    coll = ix.cls("pde/fields/collection.py", "FieldCollection")
    families = {
        "DataFieldBase": [c for c in ix.subclasses(dfb, strict=True) if not is_abstract(c) and c.module.rel.startswith("pde/fields/")],
        "FieldCollection": [coll],
    }
    rep.floor("concrete data field classes", len(families["DataFieldBase"]), 3)
    tables: dict[str, dict[str, ast.expr]] = {}
    for fam, classes in families.items():
        rep_cls = classes[0]
        W, wf = attributes_table(ix, rep_cls)
        for c in classes[1:]:
            W2, _ = attributes_table(ix, c)
            if set(W2) != set(W):
                raise AnalysisError(f"{c.ref}: attribute table differs inside the family {fam}")
        tables[fam] = W
        S = rep_cls.find_method("attributes_serialized", "getter")
        U = rep_cls.find_method("unserialize_attributes")
        R = rep_cls.find_method("from_state")
        if S is None or U is None or R is None:
            raise AnalysisError(f"{rep_cls.ref}: (de)serialisers not resolvable")
        for c in classes:
            rep.saw("field classes", c.ref)
            if c.find_method("attributes_serialized", "getter") is not S or c.find_method("unserialize_attributes") is not U or c.find_method("from_state") is not R:
                raise AnalysisError(f"{c.ref}: overrides a (de)serialiser; outside the grammar of the family rule")
        for f in (wf, S, U, R):
            rep.saw("functions", f.ref)
        if U.cls is fb or R.cls is fb:
            rep.violation("C14.attr-keys", f"{rep_cls.ref}::dispatch-target", f"{rep_cls.name} inherits the dispatching reader of FieldBase (would recurse)", line=rep_cls.node.lineno)
            continue
        sb, sdef, _, sval = parse_dispatch(S, lambda e: isinstance(e, ast.Attribute) and e.attr == "attributes" and dotted(e.value) == "self")
        uparam = func_params(U)[0]
        ub, udef, _, uval = parse_dispatch(U, lambda e, p=uparam: isinstance(e, ast.Name) and e.id == p)
        kinds = {k: value_kind(v) for k, v in W.items()}
        row = {}
        for k, kind in kinds.items():
            se = sb.get(k, sdef)
            ue = ub.get(k, udef)
            sk = ser_kind(se, sval) if se is not None else "missing"
            uk = deser_kind(ue, uval) if ue is not None else "missing"
            want = KIND_PAIR[kind]
            ok = (sk, uk) == want
            row[k] = {"kind": kind, "serialiser": sk, "deserialiser": uk}
            rep.oblige(f"{fam}:attr:{k}:inverse-pair", ok, row[k])
            if not ok:
                bad_f = S if sk != want[0] else U
                rep.violation(
                    "C14.attr-serialiser-pair",
                    f"{bad_f.ref}::key={k}",
                    f"attribute `{k}` of {fam} (a {kind} value written by {wf.ref}) is serialised as [{sk}] and restored as [{uk}]; "
                    f"the inverse pair for this kind is [{want[0]}] / [{want[1]}]",
                    line=bad_f.node.lineno,
                )
        # -- consumption by from_state
        cons = parse_consumption(R)
        call = ctor_call_in(R)
        if call is None:
            raise AnalysisError(f"{R.ref}: constructor call `cls(...)` not found")
        written = set(W)
        consumed = set(cons["popped"]) | cons["read"]
        for k, guarded in cons["popped"].items():
            if not guarded and k not in written:
                rep.violation("C14.attr-keys", f"{R.ref}::pop={k}", f"`from_state` pops `{k}` unconditionally but {wf.ref} never writes it", line=R.node.lineno)
        remaining = (written - set(cons["popped"])) | cons["added"]
        has_star = any(c is call for c in cons["star_calls"])
        explicit = {kw.arg for kw in call.keywords if kw.arg}
        for c in classes:
            init = c.find_method("__init__")
            rep.saw("functions", init.ref)
            a = init.node.args
            pos = [p.arg for p in a.posonlyargs + a.args][1:]
            kwable = set(p.arg for p in a.args[1:]) | {p.arg for p in a.kwonlyargs}
            bound_pos = set(pos[: len(call.args)])
            if has_star:
                if a.kwarg is None:
                    bad = sorted(k for k in remaining if k not in kwable or k in explicit or k in bound_pos)
                else:
                    bad = sorted(k for k in remaining if k in explicit or k in bound_pos)
                rep.oblige(f"{fam}:{c.name}:remaining-keys-are-constructor-keywords", not bad, {"remaining": sorted(remaining), "keywords": sorted(kwable)})
                for k in bad:
                    rep.violation(
                        "C14.attr-keys",
                        f"{R.ref}::key={k}",
                        f"key `{k}` written by {wf.ref} reaches `{c.name}(**attributes)` but {init.ref} has no free keyword parameter of that name",
                        line=R.node.lineno,
                    )
            else:
                lost = sorted(written - consumed)
                rep.oblige(f"{fam}:{c.name}:every-written-key-consumed", not lost, lost)
                for k in lost:
                    rep.violation(
                        "C14.attr-keys",
                        f"{R.ref}::key={k}",
                        f"key `{k}` written by {wf.ref} is never consumed by `from_state` (the attribute is silently reset on restore)",
                        line=R.node.lineno,
                    )
            # the popped keys handed over positionally go to the parameter of the same name
            defs = local_defs(R)
            for i, arg in enumerate(call.args):
                src = resolve_local(arg, defs)
                keys = [
                    const_str(n.args[0])
                    for n in ast.walk(src)
                    if isinstance(n, ast.Call) and isinstance(n.func, ast.Attribute) and n.func.attr == "pop" and dotted(n.func.value) == cons["param"] and n.args
                ]
                if len(keys) == 1 and i < len(pos):
                    ok = keys[0] == pos[i]
                    rep.oblige(f"{fam}:{c.name}:positional:{pos[i]}<-{keys[0]}", ok)
                    if not ok:
                        rep.violation("C14.attr-keys", f"{R.ref}::param={pos[i]}", f"popped key `{keys[0]}` is passed to constructor parameter `{pos[i]}`", line=R.node.lineno)
        rep.sample({"family": fam, "written_by": wf.ref, "keys": row, "from_state": {"popped": cons["popped"], "added": sorted(cons["added"]), "star": has_star}})
    # -- FieldBase dispatchers and class registry
    check_class_dispatch(
        rep,
        ix,
        ix.func("pde/fields/base.py", "FieldBase.attributes"),
        [ix.func("pde/fields/base.py", "FieldBase.from_state"), ix.func("pde/fields/base.py", "FieldBase.unserialize_attributes")],
        ix.func("pde/fields/base.py", "FieldBase.__init_subclass__"),
        "FieldBase",
    )
    # -- pickling of fields
    gs = ix.func("pde/fields/base.py", "FieldBase.__getstate__")
    rep.saw("functions", gs.ref)
    stores = set()
    for c in [fb, *ix.subclasses(fb, strict=True)]:
        for fl in c.methods.values():
            for f in fl:
                if f.node.name == "__init__" or any(d.endswith(".setter") for d in f.decorator_names):
                    for n in ast.walk(f.node):
                        if isinstance(n, ast.Attribute) and isinstance(n.ctx, ast.Store) and dotted(n.value) == "self":
                            stores.add(n.attr)
    check_getstate(rep, gs, stores, "FieldBase")
    return tables


def rule_storage(rep: Report, ix: Index, tables: dict) -> None:
    rel = "pde/storage/base.py"
    sb = ix.cls(rel, "StorageBase")
    writer = ix.func(rel, "StorageBase.start_writing")
    readers = [ix.func(rel, "StorageBase.grid"), ix.func(rel, "StorageBase._init_field")]
    rep.saw("functions", writer.ref)
    wkeys = []
    for n in ast.walk(writer.node):
        if isinstance(n, ast.Assign) and len(n.targets) == 1 and isinstance(n.targets[0], ast.Subscript) and dotted(n.targets[0].value) == "self.info":
            v = n.value
            if isinstance(v, ast.Attribute) and v.attr in ("attributes_serialized", "attributes"):
                wkeys.append((const_str(n.targets[0].slice), v.attr))
    ok = len(wkeys) == 1 and wkeys[0][1] == "attributes_serialized" and wkeys[0][0] is not None
    rep.oblige("storage:writes-serialised-attributes", ok, wkeys)
    if not ok:
        rep.violation("C14.storage-attrs", f"{writer.ref}::info", f"`start_writing` does not store `field.attributes_serialized` under one info key (found {wkeys})", line=writer.node.lineno)
        return
    wkey = wkeys[0][0]
    # the stored attributes describe the field of *this* writing session: the store happens on every normally
    # completing path of start_writing and takes its value from the `field` parameter (a stale entry from an earlier
    # session describes another grid / dtype / labels than the data written now)
    from ..cfg_lite import all_paths

    fparam = [a.arg for a in writer.node.args.args][1] if len(writer.node.args.args) > 1 else None
    if fparam is None:
        raise AnalysisError(f"{writer.ref}: parameter for the field vanished")

    def ev_store(st):
        if isinstance(st, ast.Assign) and len(st.targets) == 1 and isinstance(st.targets[0], ast.Subscript) and dotted(st.targets[0].value) == "self.info" and const_str(st.targets[0].slice) == wkey:
            return "store"
        return None

    n_paths = 0
    stale = []
    for path, oc in all_paths(writer.node, event=ev_store):
        if oc == "raise":
            continue
        n_paths += 1
        stores = [st for k, st in path.events if k == "store"]
        good = [st for st in stores if any(isinstance(x, ast.Name) and x.id == fparam for x in ast.walk(st.value))]
        if not good:
            stale.append([("" if pol else "not ") + ast.unparse(t)[:60] for t, pol in path.tests])
    rep.oblige(f"storage:start_writing refreshes info[{wkey!r}] from the field on every completing path", not stale, stale[:3])
    if stale:
        rep.violation(
            "C14.storage-attrs",
            f"{writer.ref}::info-refresh",
            f"`start_writing` completes without storing the attributes of `{fparam}` under info[{wkey!r}] when {stale[0] or 'always'}: the saved attributes keep describing the field of an earlier "
            "session (other grid, labels, dtype), so attributes + data no longer reproduce what was written",
            line=writer.node.lineno,
        )
    rep.floor("completing paths of StorageBase.start_writing", n_paths, 1)
    n_reads = 0
    for r in readers:
        rep.saw("functions", r.ref)
        defs = local_defs(r)
        calls = [n for n in ast.walk(r.node) if isinstance(n, ast.Call) and isinstance(n.func, ast.Attribute) and n.func.attr == "unserialize_attributes"]
        if not calls:
            rep.violation("C14.storage-attrs", f"{r.ref}::unserialize", "stored attributes are not passed through `unserialize_attributes`", line=r.node.lineno)
            continue
        for c in calls:
            src = resolve_local(c.args[0], defs) if c.args else None
            k = const_str(src.slice) if isinstance(src, ast.Subscript) and dotted(src.value) == "self.info" else None
            n_reads += 1
            ok = k == wkey and dotted(c.func.value) == "FieldBase"
            rep.oblige(f"storage:{r.qualname}:reads-written-key", ok, k)
            if not ok:
                rep.violation("C14.storage-attrs", f"{r.ref}::info-key", f"reads info key `{k}` but `start_writing` writes `{wkey}`", line=c.lineno)
        # keys of the restored dictionary that are read afterwards
        attr_vars = {t.id for n in ast.walk(r.node) if isinstance(n, ast.Assign) and n.value in calls for t in n.targets if isinstance(t, ast.Name)}
        for n in ast.walk(r.node):
            if isinstance(n, ast.Subscript) and isinstance(n.ctx, ast.Load) and const_str(n.slice) is not None:
                chain = []
                e = n
                while isinstance(e, ast.Subscript):
                    chain.append(e.slice)
                    e = e.value
                if isinstance(e, ast.Name) and e.id in attr_vars:
                    chain = chain[::-1]
                    k0 = const_str(chain[0])
                    known = k0 in tables["DataFieldBase"] or k0 in tables["FieldCollection"]
                    if len(chain) == 3:  # attrs["fields"][0]["grid"]
                        known = known and k0 in tables["FieldCollection"] and const_str(chain[2]) in tables["DataFieldBase"]
                    rep.oblige(f"storage:{r.qualname}:reads:{'/'.join(str(const_str(c) or '*') for c in chain)}", known)
                    if not known:
                        rep.violation("C14.storage-attrs", f"{r.ref}::attr-key", f"reads attribute key path {[const_str(c) for c in chain]} that no field class writes", line=n.lineno)
        if r.qualname.endswith("_init_field"):
            fs = [n for n in ast.walk(r.node) if isinstance(n, ast.Call) and dotted(n.func) == "FieldBase.from_state"]
            ok = len(fs) == 1 and len(fs[0].args) == 1 and isinstance(fs[0].args[0], ast.Name) and fs[0].args[0].id in attr_vars
            rep.oblige("storage:_init_field:restores-via-from_state", ok)
            if not ok:
                rep.violation("C14.storage-attrs", f"{r.ref}::from_state", "the unserialised attributes are not handed to `FieldBase.from_state`", line=r.node.lineno)
    rep.floor("storage readers of the field attributes", n_reads, 2)


# ============================================================================= (c) component counts
def rule_component_counts(rep: Report, ix: Index) -> None:
    core = lambda rel: not (rel.startswith("pde/backends/jax/") or rel.startswith("pde/backends/torch/"))  # noqa: E731
    sites = component_count_sites(ix)
    n_core = 0
    per_func: dict[str, int] = {}
    for s in sites:
        where = s.where
        per_func[where] = per_func.get(where, 0) + 1
        if core(s.module_rel):
            n_core += 1
        rep.saw("component-count sites", f"{where}::{s.role}")
        types = s.types
        ok = types == {DIM}
        rep.oblige(f"count:{where}::{s.role}", ok, {"base": ast.unparse(s.base), "types": sorted(types)})
        if ok:
            continue
        if AXES in types:
            rep.violation(
                "C14.component-count-dim",
                f"{where}::{s.role}",
                f"tensor components are counted with `{ast.unparse(s.base)}` (number of grid axes) instead of `grid.dim`: "
                f"`{ast.unparse(s.node)[:80]}`; wrong on every grid with symmetry axes (num_axes < dim)",
                line=s.node.lineno,
            )
        else:
            raise AnalysisError(f"{where}: cannot type the base of the component count `{ast.unparse(s.node)[:60]}` (line {s.node.lineno})")
    rep.floor("component-count sites (core package)", n_core, 9)
    # anchored sites: these functions must contain a count site
    for rel, qn in (
        ("pde/fields/collection.py", "FieldCollection.from_data"),
        ("pde/fields/datafield_base.py", "DataFieldBase.__init__"),
        ("pde/fields/datafield_base.py", "DataFieldBase.random_uniform"),
        ("pde/grids/boundaries/local.py", "BCBase.__init__"),
    ):
        f = ix.func(rel, qn)
        rep.floor(f"component-count sites in {f.ref}", per_func.get(f.ref, 0), 1)
    rep.sample({"component_count_sites": len(sites), "core": n_core, "examples": [f"{s.where}: {ast.unparse(s.node)[:50]}" for s in sites[:6]]})


# ============================================================================= (d) collection slices
def _contains(term, sub) -> bool:
    return isinstance(term, sp.Basic) and term.has(sub)


def rule_collection_slices(rep: Report, ix: Index) -> None:
    rel = "pde/fields/collection.py"
    # ---------------------------------------------------------------- from_data
    f = ix.func(rel, "FieldCollection.from_data")
    rep.saw("functions", f.ref)
    ev = SymEval(f.ref, lenient=True)
    env = {n: sp.Symbol(n) for n in func_params(f)}
    paths = ev.run(strip_doc(f.node.body), Path(env))
    data_param = func_params(f)[2]  # (field_classes, grid, data, ...)
    loops = [L for L in ev.loops if any(e[0] == "slice" for p in L.paths for e in p.events)]
    if len(loops) != 1:
        raise AnalysisError(f"{f.ref}: expected one loop slicing the flat data array, found {len(loops)} (skipped: {ev.skipped})")
    L = loops[0]
    cursors = [n for n, s in L.carried.items() if not isinstance(L.pre_env.get(n), PyList)]
    lists = [n for n, s in L.carried.items() if isinstance(L.pre_env.get(n), PyList)]
    live = [p for p in L.paths if p.outcome is None]
    if not live:
        raise AnalysisError(f"{f.ref}: loop body never completes")
    problems: list[tuple[str, str, int]] = []
    n_slices = 0
    for p in live:
        slices = [e for e in p.events if e[0] == "slice" and _contains(e[1], sp.Symbol(data_param))]
        if not slices:
            problems.append(("slice", "an iteration completes without taking a slice of the data array", L.node.lineno))
            continue
        # the cursor: the carried scalar that is the lower bound of the slice
        sl: SliceV = slices[0][2]
        cur = [n for n in cursors if sl.lo is not None and sp.simplify(sl.lo - L.carried[n]) == 0]
        if len(cur) != 1:
            problems.append(("slice", f"lower bound `{sl.lo}` of the data slice is not the running cursor", slices[0][3].lineno))
            continue
        cname = cur[0]
        S = L.carried[cname]
        init = L.pre_env.get(cname)
        if has_havoc(p.env[cname]) or has_havoc(init) or any(has_havoc(e[2].lo) or has_havoc(e[2].hi) for e in slices):
            raise AnalysisError(f"{f.ref}: the slice cursor depends on a statement outside the grammar: {ev.skipped}")
        if not (isinstance(init, sp.Basic) and init == 0):
            problems.append(("start", f"cursor `{cname}` starts at {init}, not 0", L.node.lineno))
        step = sp.simplify(p.env[cname] - S)
        if step == 0 or step.has(S):
            problems.append(("advance", f"cursor `{cname}` is not advanced by the size of the field on every iteration (next = {p.env[cname]})", L.node.lineno))
        for e in slices:
            n_slices += 1
            s2: SliceV = e[2]
            lo_ok = s2.lo is not None and sp.simplify(s2.lo - S) == 0
            hi_ok = s2.hi is not None and sp.simplify(s2.hi - p.env[cname]) == 0
            if not (lo_ok and hi_ok and s2.step is None):
                problems.append(("slice", f"data slice [{s2.lo}:{s2.hi}] is not [cursor : next cursor] = [{S}:{p.env[cname]}]", e[3].lineno))
        # the size must be the component count of the very field that receives the data
        appended = [e for e in p.events if e[0] == "append" and e[1] in lists]
        if len(appended) != 1:
            problems.append(("order", f"{len(appended)} fields appended per iteration (expected exactly one)", L.node.lineno))
            continue
        field_term = appended[0][2]
        if not (isinstance(field_term, sp.Basic) and _contains(step, sp.Function("attr_rank")(field_term))):
            problems.append(("advance", f"cursor step `{step}` is not computed from the rank of the field appended in this iteration", L.node.lineno))
        sets = [e for e in p.events if e[0] in ("setattr", "setitem") and _contains(e[3] if e[0] == "setattr" else e[3], sp.Symbol(data_param))]
        for e in sets:
            if not _contains(e[1], field_term) and e[1] != field_term:
                problems.append(("order", "the data slice is written into an object other than the field appended in this iteration", e[4].lineno))
        if not sets:
            problems.append(("order", "the data slice is never stored into the field", L.node.lineno))
        # returned collection is built from that list, in order
        lname = appended[0][1]
        for q in paths:
            if q.outcome and q.outcome[0] == "return":
                t = q.outcome[1]
                args = positional_args(t) if isinstance(t, sp.Basic) else []
                ok = head_name(t) in ("call_cls", "call_FieldCollection") and args and args[0] == q.env[lname].term() if isinstance(q.env.get(lname), PyList) else False
                if not ok:
                    problems.append(("order", "the collection is not constructed from the list of fields in loop order", f.node.lineno))
    rep.floor("data slices in FieldCollection.from_data", n_slices, 2)
    rep.oblige("from_data:cursor-is-cumulative", not problems, [m for _, m, _ in problems])
    for role, msg, line in problems:
        rep.violation("C14.collection-slices", f"{f.ref}::{role}", msg, line=line)
    rep.sample({"from_data": {"cursor_init": str(L.pre_env.get(cursors[0])) if cursors else None, "next": [str(p.env[c]) for p in live for c in cursors][:2]}})

    # ---------------------------------------------------------------- __init__
    g = ix.func(rel, "FieldCollection.__init__")
    rep.saw("functions", g.ref)
    ev = SymEval(g.ref, lenient=True)
    env = {n: sp.Symbol(n) for n in func_params(g)}
    ev.run(strip_doc(g.node.body), Path(env))
    self_slices = sp.Function("attr__slices")(sp.Symbol("self"))

    def slice_appends(p: Path):
        return [e for e in p.events if e[0] == "call" and head_name(e[1]) == "call_append" and e[1].args and e[1].args[0] == self_slices]

    fill = [L for L in ev.loops if any(slice_appends(p) for p in L.paths)]
    link = [L for L in ev.loops if any(e[0] == "setattr" and e[2] == "_data_flat" for p in L.paths for e in p.events)]
    rep.floor("loops filling self._slices in FieldCollection.__init__", len(fill), 1)
    rep.floor("loops re-linking field data in FieldCollection.__init__", len(link), 1)
    problems = []
    seen_sig = set()
    for L in fill:
        lists = [n for n in L.carried if isinstance(L.pre_env.get(n), PyList)]
        for p in L.paths:
            if p.outcome is not None:
                continue
            apps = slice_appends(p)
            ext = [e for e in p.events if e[0] == "extend" and e[1] in lists]
            sig = (str([e[1] for e in apps]), str([e[2] for e in ext]))
            if sig in seen_sig:
                continue
            seen_sig.add(sig)
            if len(apps) != 1 or len(ext) != 1:
                problems.append(("fill", f"an iteration records {len(apps)} slice(s) and extends the flat data {len(ext)} time(s); expected one each", L.node.lineno))
                continue
            lname = ext[0][1]
            pre = L.pre_env[lname]
            if not (pre.items == [] and not pre.appended and not pre.extended and not pre.stores):
                problems.append(("fill", f"`{lname}` is not empty when the loop starts", L.node.lineno))
            len0 = PyList(base=L.carried[lname]).length()
            len1 = p.env[lname].length()
            if has_havoc(len1) or has_havoc(apps[0][1]):
                raise AnalysisError(f"{g.ref}: the slice bookkeeping depends on a statement outside the grammar: {ev.skipped}")
            sl = apps[0][1].args[1]
            if head_name(sl) != "slice":
                problems.append(("fill", f"appended value `{sl}` is not a slice", apps[0][2].lineno))
                continue
            lo, hi, stp = sl.args
            if sp.simplify(lo - len0) != 0 or sp.simplify(hi - len1) != 0 or stp != sp.Symbol("None"):
                problems.append(("fill", f"recorded slice [{lo}:{hi}] is not [rows before : rows after] = [{len0}:{len1}] of the flat data", apps[0][2].lineno))
            item = L.target
            want = sp.Function("attr__data_flat")(item) if isinstance(item, sp.Basic) else None
            if ext[0][2] != want:
                problems.append(("fill", f"the flat data is extended by `{ext[0][2]}`, not by the `_data_flat` of the field of this iteration", ext[0][3].lineno))
        # self._slices must be reset before the loop
        outer = L.outer
        resets = [e for e in outer.events if e[0] == "setattr" and e[2] == "_slices" and isinstance(e[3], PyList) and e[3].items == []] if outer else []
        if not resets:
            problems.append(("fill", "`self._slices` is not reset to an empty list before it is filled", L.node.lineno))
    fill_iter = {str(sp.sympify(L.iter_value)) for L in fill if isinstance(L.iter_value, sp.Basic)}
    for L in link:
        for p in L.paths:
            for e in p.events:
                if e[0] == "setattr" and e[2] == "_data_flat":
                    tgt, val = e[1], e[3]
                    cnt, item = L.target if isinstance(L.target, tuple) else (None, L.target)
                    ok = (
                        cnt is not None
                        and tgt == item
                        and head_name(val) == "elem"
                        and val.args[1] == sp.Function("elem")(self_slices, cnt)
                        and head_name(L.iter_value) == "call_enumerate"
                        and str(positional_args(L.iter_value)[0]) in fill_iter
                    )
                    if not ok:
                        problems.append(("link", f"field `{tgt}` is re-linked to `{val}`; expected the i-th field of the sequence that filled `_slices` to get rows `self._slices[i]`", e[4].lineno))
    rep.oblige("__init__:slices-are-cumulative-and-relinked-in-order", not problems, [m for _, m, _ in problems])
    for role, msg, line in problems:
        rep.violation("C14.collection-slices", f"{g.ref}::{role}", msg, line=line)


# ============================================================================= entry
def _state_items(S: FuncInfo) -> list[tuple[str | None, ast.expr]]:
    """(key, value expression) pairs of the dictionary returned by a `state` getter: a
    dictionary literal, possibly bound to a local name and extended by `d[key] = value`"""
    rets = [r for r in ast.walk(S.node) if isinstance(r, ast.Return) and r.value is not None]
    if len(rets) != 1:
        raise AnalysisError(f"{S.ref}: expected exactly one return statement")
    rv = rets[0].value
    items: list[tuple[str | None, ast.expr]] = []
    if isinstance(rv, ast.Dict):
        return [(const_str(k), v) for k, v in zip(rv.keys, rv.values)]
    if isinstance(rv, ast.Name):
        found = False
        for st in ast.walk(S.node):
            if isinstance(st, ast.Assign) and len(st.targets) == 1:
                t = st.targets[0]
                if isinstance(t, ast.Name) and t.id == rv.id and isinstance(st.value, ast.Dict):
                    found = True
                    items += [(const_str(k), v) for k, v in zip(st.value.keys, st.value.values)]
                elif isinstance(t, ast.Name) and t.id == rv.id and isinstance(st.value, ast.Call) and dotted(st.value.func) == "dict" and not st.value.args:
                    found = True
                    items += [(k.arg, k.value) for k in st.value.keywords]
                elif isinstance(t, ast.Subscript) and isinstance(t.value, ast.Name) and t.value.id == rv.id:
                    items.append((const_str(t.slice), st.value))
        if found:
            return items
    raise AnalysisError(f"{S.ref}: the returned state is not a dictionary literal (possibly built stepwise) -- cannot read off its entries")


def rule_exact_collapse(rep: Report, ix: Index) -> None:
    """a reader property used by `state` may drop a leaf of the identity (e.g. `radius`
    returns the bare outer radius) only on a branch whose condition implies the exact value
    of the dropped leaf, and the constructor must fill the leaf with that very constant when
    it is handed the collapsed form -- otherwise state -> from_state is not the identity"""
    from ..gridleaf import LeafEval, constructor_defaults

    base = ix.cls("pde/grids/base.py", "GridBase")
    concrete = [c for c in ix.subclasses(base, strict=True) if not is_abstract(c) and c.module.rel.startswith("pde/grids/")]
    n = 0
    for c in concrete:
        S = c.find_method("state", "getter")
        for key, v in _state_items(S):
            le = LeafEval(ix, c)
            carried = le.ev(v, {})
            for col in le.collapses:
                n += 1
                rep.saw("reader branches that drop identity leaves", f"{col.func.ref} under `{col.condition}` drops {[str(d) for d in col.dropped]}")
                dflt = constructor_defaults(ix, c, key) if key else {}
                narrow = dflt.pop("__narrow__", None)
                if narrow:
                    rep.oblige(f"{c.name}:constructor accepts the JSON form of `{key}`", False, narrow)
                    rep.violation(
                        "C14.state-key-binding",
                        f"{c.find_method('__init__').ref}::{key}::json-form",
                        f"{narrow}: {c.name}.from_state(g.state_serialized) and every field or storage attribute that embeds such a grid fail (or rebuild another grid) for grids whose `{key}` is a pair",
                        line=c.find_method("__init__").node.lineno,
                    )
                if not dflt and not narrow:
                    raise AnalysisError(f"{c.find_method('__init__').ref}: the constructor idiom that tells the full form of `{key}` from the collapsed one is not recognised")
                for leaf in col.dropped:
                    why = None
                    if leaf not in col.exact:
                        why = (
                            f"the branch condition `{col.condition}` does not imply an exact value of {leaf} (only an exact comparison `== constant` does): "
                            f"grids whose {leaf} merely satisfies the condition are restored with a different {leaf}"
                        )
                    elif leaf not in dflt:
                        why = f"the constructor of {c.name} has no recognisable default for {leaf} when `{key}` is given in the collapsed form"
                    elif dflt[leaf] != col.exact[leaf] or isinstance(dflt[leaf], tuple):
                        why = f"the branch drops {leaf} when it equals {col.exact[leaf]!r}, but the constructor of {c.name} fills it with {dflt[leaf]!r} for the collapsed form of `{key}`"
                    rep.oblige(f"{c.name}:state[{key}]:{col.prop} drops {leaf} only when it equals the constructor default", why is None, why or f"{leaf} == {col.exact.get(leaf)!r}")
                    if why:
                        rep.violation(
                            "C14.lossy-collapse",
                            f"{col.func.ref}::{leaf}",
                            f"`{col.prop}` (stored by {c.name}.state under key `{key}`) drops {leaf} on a branch: {why}; from_state(g.state) / copy() / deepcopy do not reproduce the grid",
                            line=col.line,
                            cls=c.name,
                        )
            rep.sample({"class": c.name, "state key": key, "carries": str(carried)}) if key in ("radius",) else None
    rep.note(f"exact-collapse rule: {n} reader branches that drop identity leaves were judged")



def rule_collection_copy_labels(rep: Report, ix: Index) -> None:
    """the read path of storages and every `copy()` go through FieldCollection.copy: its `label` argument names the
    *collection*; member fields are copied with their own labels (`f.copy()`), otherwise a labelled collection comes back with
    every member carrying the collection's label and by-name access (`extract_field('c')`) fails"""
    f = ix.func("pde/fields/collection.py", "FieldCollection.copy")
    rep.saw("functions", f.ref)
    params = {a.arg for a in f.node.args.args + f.node.args.kwonlyargs}
    calls = [c for c in ast.walk(f.node) if isinstance(c, ast.Call) and isinstance(c.func, ast.Attribute) and c.func.attr == "copy" and isinstance(c.func.value, ast.Name) and c.func.value.id not in ("self",)]
    if not calls:
        raise AnalysisError(f"{f.ref}: member copies not found")
    bad = []
    for c in calls:
        for k in c.keywords:
            if k.arg == "label" and any(isinstance(x, ast.Name) and x.id in params for x in ast.walk(k.value)):
                bad.append(ast.unparse(c))
    rep.oblige("FieldCollection.copy: members are copied with their own labels", not bad, bad)
    for b in bad[:1]:
        rep.violation(
            "C14.member-labels",
            f"{f.ref}::member-copy",
            f"`{b}` hands the collection's `label` argument to the member copies: copying (and reading back from a storage) a collection that has a label of its own gives every member that label",
            line=f.node.lineno,
        )



def rule_from_data_dtype(rep: Report, ix: Index) -> None:
    """FieldCollection.from_data copies the flat data into freshly allocated member fields when no ghost cells are
    supplied (`field.data.flat = ...`): the members must be allocated with the dtype of the data (or the requested dtype),
    otherwise the assignment casts -- complex data lose their imaginary part -- and the collection does not reproduce the
    components it was built from"""
    f = ix.func("pde/fields/collection.py", "FieldCollection.from_data")
    rep.saw("functions", f.ref)
    params = [a.arg for a in f.node.args.args]
    dname = "data" if "data" in params else None
    if dname is None:
        raise AnalysisError(f"{f.ref}: parameter `data` vanished")
    copies_in = [st for st in ast.walk(f.node) if isinstance(st, ast.Assign) and any(isinstance(t, ast.Attribute) and t.attr == "flat" for t in st.targets)]
    if not copies_in:
        rep.note("from_data no longer assigns values into allocated members; dtype rule not applicable")
        return
    allocs = [st for st in ast.walk(f.node) if isinstance(st, ast.Assign) and isinstance(st.value, ast.Call) and isinstance(st.value.func, ast.Name) and st.value.func.id == "field_class"]
    if len(allocs) != 1:
        raise AnalysisError(f"{f.ref}: expected one allocation `field_class(grid, ...)`, found {len(allocs)}")
    kw = {k.arg: k.value for k in allocs[0].value.keywords}
    d = kw.get("dtype")

    def mentions_data_dtype(e) -> bool:
        return any(isinstance(x, ast.Attribute) and x.attr == "dtype" and isinstance(x.value, ast.Name) and x.value.id == dname for x in ast.walk(e))

    # the dtype handed to the members must be that of the data whenever the caller did not request one: the expression (or a
    # re-binding of the name it uses) has to read `data.dtype`; the bare optional parameter `dtype` is None in nearly every call
    ok = False
    if d is not None:
        ok = mentions_data_dtype(d)
        if not ok and isinstance(d, ast.Name):
            ok = any(isinstance(st, (ast.Assign, ast.AnnAssign)) and st.value is not None and any(isinstance(t, ast.Name) and t.id == d.id for t in (st.targets if isinstance(st, ast.Assign) else [st.target])) and mentions_data_dtype(st.value) for st in ast.walk(f.node))
    rep.oblige("FieldCollection.from_data: members that values are copied into carry the dtype of the data", ok, ast.unparse(allocs[0].value))
    if not ok:
        rep.violation(
            "C14.from-data-dtype",
            f"{f.ref}::member-allocation",
            f"`{ast.unparse(allocs[0].value)}` allocates the members with a dtype that is not tied to `{dname}.dtype` (the default when none is requested) and `{ast.unparse(copies_in[0])[:60]}` assigns the data into them: complex (or other non-float) data are cast, "
            "so from_data(..., with_ghost_cells=False) does not reproduce the components",
            line=allocs[0].lineno,
        )


def check(tier: str) -> Report:
    rep = Report("C14", tier, "other", "static: constructor may-dataflow vs state readers, key-table equality, dim/num_axes typing of component counts, symbolic slice recurrence")
    rep.explanation = (
        "Grids: every concrete grid constructor is interpreted over a token domain (which leaf of _shape/_axes_bounds/_periodic is "
        "filled from which parameter); `state` is evaluated on the resulting abstract heap and must read every such leaf; key sets of "
        "state/from_state/constructor must coincide; copy/deepcopy/JSON/pickle must route through them. Fields: key tables of "
        "`attributes` vs consumption in `from_state`, inverse (de)serialiser pair per key, storage info key. Component counts: every "
        "X**rank / (X,)*rank / (X, X, *shape) must have X typed `dim`. Collections: the slice cursor is extracted as a symbolic "
        "recurrence and must be cumulative in field order. Exact-collapse rule: a reader property that drops a leaf on some branch (`radius` "
        "returning the bare outer radius) must do so under a condition that implies the exact value of the leaf, equal to the constant the "
        "constructor fills in for the collapsed form."
    )
    ix = get_index()
    info = rule_grid_state(rep, ix)
    rule_grid_routes(rep, ix, info)
    rule_exact_collapse(rep, ix)
    tables = rule_field_attrs(rep, ix)
    rule_storage(rep, ix, tables)
    rule_component_counts(rep, ix)
    rule_collection_slices(rep, ix)
    rule_collection_copy_labels(rep, ix)
    rule_from_data_dtype(rep, ix)
    rep.assumptions += [
        "JSON float round-trip exactness is not decided",
        "a property setter/getter pair is coherent (the getter returns what the setter was given)",
        "value-preserving conversions: tuple/list/float/int/bool/np.array/.copy(); every other call is treated as lossy for coverage",
        "identifiers `rank`, `rank_*`, `*_rank` denote tensor ranks; `.dim` is the space dimension, `.num_axes`/len(shape|axes|periodic|...) the number of grid axes",
        "h5py/modelrunner/movie readers are not analysed beyond the shared (de)serialisers",
    ]
    rep.trusted = ["CPython ast", "sympy (difference of cursor terms)"]
    return rep

"""C04 -- results never depend on what was computed earlier in the process.

Static rules over the syntax trees of ``<repo>/pde`` (nothing is imported or run):

(a) cache keys discriminate
    C04.key-composition                  the decorator's wrapper builds the key from ``args`` and ``kwargs``
    C04.key-reads-result-store           the per-object result store must not enter a key
    C04.dict-key-blind-to-class          ``__dict__`` fallback of ``hash_mutable`` vs. sibling classes with equal
                                         instance attributes and different behaviour
    C04.key-filter-hides-eq-attr         mapping-key filter of ``hash_mutable`` hides an attribute ``__eq__`` compares
    C04.hook-omits-class / -eq-attr      ``_cache_hash`` must mention the class and all that ``__eq__`` compares
    C04.ignored-arg-affects-result       ``ignore_args`` names an argument the method body uses
(b) captured addresses are keyed or invalidated
    C04.rebind-without-invalidation      attribute of ``self`` captured by address is re-bound without dropping the
                                         per-object result store (and no identity of it in ``extra_args``)
    C04.captured-address-keyed-by-content attribute of a keyed *argument* is captured by address but enters the
                                         key by content only
(c) inventory and the hand-written cache of ``PDE._prepare_cache``
    C04.validity-test / C04.validity-test-misses-read
(d) state read by a cached method is not changed later without invalidation
    C04.cached-reads-mutable-state       an attribute (down to storage, through getters and self-calls) read by a
                                         cached method is re-bound / written in place by a non-constructor method of the
                                         class family that does not drop the result store (and is not in ``extra_args``)
    C04.cached-reads-linked-contents     ... or is bound to an object owned by the caller (``link_value``)
(e) containers shared by reference (expression <-> copies <-> constructor arguments)
    C04.shared-container-mutated         in-place change of ``user_funcs`` / ``consts`` (as far as ``ExpressionBase.__init__``
                                         stores the argument object) on anything but a provably new container
(f) numbers in keys
    C04.numeric-key-hash-collides        results are looked up by the integer key alone; numbers must not be keyed by the
                                         builtin ``hash`` (hash(-1) == hash(-2)), neither in hash_mutable nor in a hook
"""

from __future__ import annotations

import ast

from .. import cachekey as ck
from ..core import AnalysisError, Report
from ..index import ClassInfo, FuncInfo, dotted, get_index

FLOOR_SITES = 20  # counted by hand on the pinned tree
FLOOR_CAPTURES = 3  # (make_interpolator: _data_full, data) + (make_operator: bcs...value)

# members that do not make two classes behave differently on equal instance dicts
NOT_BEHAVIOUR = {"__init__", "__repr__", "__str__", "__doc__", "__module__", "__qualname__", "__slots__", "__annotations__"}

# re-binding inside a constructor: no cached result of the object can exist before it is built
CONSTRUCTORS = {"__init__", "__new__"}

# `state.<attr>` reads of the rhs compiler that are functions of compared attributes
# (each one a named construct with its reason)
DERIVED_READS = {
    "data": ("dtype", "only as the argument of np.iscomplexobj(...), which is decided by the dtype"),
    "_slices": ("fields", "slices of a collection are a function of the member classes and grid.dim"),
}


# =====================================================================================
# (a) keys
# =====================================================================================
def rule_key_model(rep: Report, km: ck.KeyModel) -> None:
    rep.saw("functions", km.func.ref)
    rep.saw("functions", km.wrapper.ref)
    rep.sample({"key_model": km.describe()})
    for part in ("args", "kwargs"):
        ok = part in km.key_parts
        rep.oblige(f"key-composition:{part}", ok, sorted(km.key_parts))
        if not ok:
            rep.violation(
                "C04.key-composition",
                f"{km.wrapper.ref}::{part}",
                f"the cache key computed by the decorator does not depend on `{part}` of the call: calls that differ only there share a result",
                line=km.wrapper.node.lineno,
            )
    if km.default_hash_function != "hash_mutable":
        raise AnalysisError(f"default hash function of the cache decorators is `{km.default_hash_function}`, not hash_mutable: key model does not apply")
    if not km.tries_hash:
        raise AnalysisError("hash_mutable no longer tries hash(obj): key model does not apply")
    if km.fallback:
        ok = bool(km.filter_prefix) and km.store_attr.startswith(km.filter_prefix)
        rep.oblige("result-store-not-in-key", ok, {"store": km.store_attr, "filtered_prefix": km.filter_prefix})
        if not ok:
            rep.violation(
                "C04.key-reads-result-store",
                f"{km.func.ref}::{km.store_attr}",
                f"objects keyed through `obj.__dict__` carry their own result store `{km.store_attr}`, which is not filtered "
                f"(filtered prefix: {km.filter_prefix!r}): the key of an object depends on which cached methods were called before",
                line=km.fallback_line,
            )


def behaviour_signature(cls: ClassInfo, names: set[str]) -> dict[str, str]:
    sig = {}
    for n in names:
        f = cls.find_method(n)
        if f is not None:
            sig[n] = f.ref
            continue
        a = cls.find_attr(n)
        if a is not None:
            sig[n] = ast.dump(a[1])
    return sig


def rule_fallback_families(rep: Report, ix, km: ck.KeyModel, ka: ck.KeyAnalysis, facts: ck.ClassFacts) -> None:
    """(a1) + (a3) on every class that reaches the ``__dict__`` fallback"""
    reached = [c for c, k in ka.kinds.items() if k == "fallback" and c in ka.reached]
    roots: dict[ClassInfo, list[ClassInfo]] = {}
    for c in reached:
        roots.setdefault(ka.fallback_root(c), [])
    witnesses = []
    for root in sorted(roots, key=lambda c: c.ref):
        members = [c for c in ix.subclasses(root) if ka.class_kind(c) == "fallback"]
        roots[root] = members
        for m in members:
            rep.saw("classes", m.ref)
        concrete = [c for c in members if not facts.is_abstract(c)]
        names: set[str] = set()
        for c in members:
            for k in c.mro():
                names |= set(k.methods) | set(k.attrs)
        names -= NOT_BEHAVIOUR
        groups: dict[frozenset, list[ClassInfo]] = {}
        for c in concrete:
            attrs = frozenset(a for a in facts.inst_attrs(c) if not (km.filter_prefix and a.startswith(km.filter_prefix)))
            groups.setdefault(attrs, []).append(c)
        collisions = []
        for attrs, cs in groups.items():
            if len(cs) < 2:
                continue
            sigs = {c: behaviour_signature(c, names) for c in cs}
            base = sigs[cs[0]]
            differing = sorted({n for c in cs[1:] for n in names if sigs[c].get(n) != base.get(n)})
            if differing:
                collisions.append({"classes": sorted(c.name for c in cs), "instance_attributes": sorted(attrs), "differ_in": differing[:8]})
        ok = km.fallback_class_sensitive or not collisions
        rep.oblige(
            f"fallback-key-discriminates:{root.name}",
            ok,
            {"members": sorted(c.name for c in members), "collisions": collisions[:4], "fallback_depends_on_class": km.fallback_class_sensitive},
        )
        if not ok:
            witnesses.append({"family": root.ref, "reached_via": sorted(set(v for c in members for v in ka.reached.get(c, [])))[:6], "collisions": collisions[:4]})
        # (a3) attributes compared by __eq__ must not be filtered from the instance dict
        if km.filter_prefix:
            done: set[tuple] = set()
            for c in members:
                eq = facts.chain(c, "__eq__")
                if eq is None:
                    continue
                for a in sorted(eq.attrs):
                    f = c.find_method(a)
                    if f is not None and not ck.is_property(f):
                        continue
                    for s in sorted(facts.storage_of(c, a)):
                        hidden = s.startswith(km.filter_prefix) and s in facts.inst_attrs(c)
                        tag = (tuple(d.ref for d in eq.definers), s)
                        if tag in done and not hidden:
                            continue  # same __eq__ chain, same storage: one obligation
                        done.add(tag)
                        rep.oblige(f"eq-attr-enters-key:{c.name}.{s}", not hidden)
                        if hidden:
                            rep.violation(
                                "C04.key-filter-hides-eq-attr",
                                f"{c.ref}::{s}",
                                f"`{c.name}.__eq__` compares `{a}` (stored in `{s}`), but hash_mutable drops instance-dict keys starting with "
                                f"{km.filter_prefix!r}: objects that compare unequal share a cache key",
                                line=eq.definers[0].node.lineno,
                            )
    if witnesses:
        witnesses.sort(key=lambda w: -sum(len(c["classes"]) for c in w["collisions"]))
        first = max(witnesses[0]["collisions"], key=lambda c: len(c["classes"]))
        rep.violation(
            "C04.dict-key-blind-to-class",
            f"{km.func.ref}::dict-fallback",
            f"objects with `__eq__` but neither `__hash__` nor `{km.hook}` are keyed by `{km.fallback_expr}`, which does not depend on the class: "
            f"e.g. {'/'.join(first['classes'][:4])} ({witnesses[0]['family']}) have equal instance attributes but differ in "
            f"{', '.join(first['differ_in'][:4])}; such objects reach the key of {', '.join(witnesses[0]['reached_via'][:3])}. "
            f"{len(witnesses)} class families collide.",
            line=km.fallback_line,
            families=witnesses,
        )


def rule_hooks(rep: Report, ix, km: ck.KeyModel, ka: ck.KeyAnalysis, facts: ck.ClassFacts) -> None:
    """(a2) ``_cache_hash`` mentions the class and everything the ``__eq__`` chain compares"""
    if not km.hook:
        return
    hooked = sorted((c for c, k in ka.kinds.items() if k == "hook" and c in ka.reached), key=lambda c: c.ref)
    by_definer: dict[FuncInfo, list[ClassInfo]] = {}
    for c in hooked:
        f = c.find_method(km.hook)
        if f is None:
            raise AnalysisError(f"{c.ref}: hook `{km.hook}` is not a method")
        by_definer.setdefault(f, []).append(c)
    for definer, classes in by_definer.items():
        rep.saw("hooks", ck.display_ref(definer))
        for c in classes:
            rep.saw("classes", c.ref)
            hk = facts.chain(c, km.hook)
            eq = facts.chain(c, "__eq__")
            if hk is None:
                continue
            if not hk.complete:
                raise AnalysisError(f"{c.ref}: `{km.hook}` calls super() into code outside the repository")
            if len(classes) > 1:
                rep.oblige(f"hook-mentions-class:{c.name}", hk.uses_class)
                if not hk.uses_class:
                    rep.violation(
                        "C04.hook-omits-class",
                        f"{ck.display_ref(definer)}::class-identity",
                        f"`{km.hook}` is shared by {len(classes)} classes ({', '.join(sorted(k.name for k in classes)[:5])}...) but does not depend on "
                        f"`self.__class__`/`type(self)`: instances of different classes with equal attributes share cached results",
                        line=definer.node.lineno,
                    )
            if eq is None:
                continue
            inst = facts.inst_attrs(c)
            hook_storage: set[str] = set()
            for h in hk.attrs:
                hook_storage |= facts.storage_of(c, h)
            for a in sorted(eq.attrs):
                f = c.find_method(a)
                if f is not None and not ck.is_property(f):
                    continue  # a method call, not state
                st = facts.storage_of(c, a)
                in_dict = st <= set(inst) and not any(km.filter_prefix and s.startswith(km.filter_prefix) for s in st)
                class_level = facts.class_level(c, a)
                covered = (
                    a in hk.attrs
                    or st <= hook_storage
                    or (hk.uses_dict and in_dict)
                    or (hk.uses_class and class_level and not (st & set(inst)))
                    or (hk.uses_class and hk.uses_dict and class_level)
                )
                rep.oblige(f"hook-covers-eq:{c.name}.{a}", covered)
                if not covered:
                    rep.violation(
                        "C04.hook-omits-eq-attr",
                        f"{ck.display_ref(hk.definers[0])}::{a}",
                        f"`{c.name}.__eq__` compares `{a}`, but `{km.hook}` ({', '.join(ck.display_name(d) for d in hk.definers)}) does not read it: "
                        f"objects that compare unequal share a cache key",
                        line=hk.definers[0].node.lineno,
                    )


def rule_ignore_args(rep: Report, site: ck.Site) -> None:
    if not site.ignore_args:
        return
    f = site.func
    names = {p.name: p for p in site.params}
    kwarg = next((p for p in site.params if p.kind == "kwarg"), None)
    loads = {n.id for n in ck.walk_no_classes(f.node) if isinstance(n, ast.Name) and isinstance(n.ctx, ast.Load)}
    for ign in site.ignore_args:
        if ign in names:
            used = ign in loads
            why = f"parameter `{ign}` is read by the method body"
        elif kwarg is not None:
            used = kwarg.name in loads
            why = f"`{ign}` travels in `**{kwarg.name}`, which the method body forwards"
        else:
            used = False
            why = ""
        rep.oblige(f"ignored-arg-unused:{ck.display_name(f)}:{ign}", not used)
        if used:
            rep.violation(
                "C04.ignored-arg-affects-result",
                f"{site.ref}::{ign}",
                f"`ignore_args` removes `{ign}` from the cache key although {why}: calls that differ only in `{ign}` share one cached result",
                line=f.node.lineno,
            )


# =====================================================================================
# (b) captured addresses
# =====================================================================================
def identity_in_extra_args(site: ck.Site, storages: set[str], facts: ck.ClassFacts) -> tuple[bool, list[str]]:
    """does `extra_args` contain an identity (address / id) of one of the storages?"""
    keyed_by_content = []
    cls = site.cls
    for e in site.extra_args:
        g = cls.find_method(e, "getter") if cls else None
        if g is not None and ck.is_property(g):
            me = ck.first_param(g)
            for n in ck.walk_no_classes(g.node):
                target = None
                if isinstance(n, ast.Attribute) and n.attr in ck.ADDRESS_ATTRS and ck.is_attr_of(n.value, me):
                    target = n.value.attr
                if ck.is_call_to(n, "id") and n.args and ck.is_attr_of(n.args[0], me):
                    target = n.args[0].attr
                if target is not None and facts.storage_of(cls, ck.mangle(target, g.cls.name if g.cls else None)) & storages:
                    return True, keyed_by_content
        if cls is not None and facts.storage_of(cls, e) & storages:
            keyed_by_content.append(e)
    return False, keyed_by_content


def rule_self_captures(rep: Report, ix, km: ck.KeyModel, site: ck.Site, caps: list[ck.Capture], facts: ck.ClassFacts) -> None:
    """(b1) attributes of the caching object itself"""
    cls = site.cls
    storages: set[str] = set()
    attrs = sorted({c.attr for c in caps})
    for a in attrs:
        storages |= facts.storage_of(cls, a)
    where = sorted({f"{ck.display_name(c.func)}:{c.how}" for c in caps})
    keyed, by_content = identity_in_extra_args(site, storages, facts)
    rep.oblige(
        f"captured-address-keyed:{ck.display_name(site.func)}",
        True,
        {"attributes": attrs, "storage": sorted(storages), "captured_in": where, "identity_in_extra_args": keyed, "otherwise": "every re-bind must invalidate (rebind-* obligations)"},
    )
    if keyed:
        return
    n_rebinds = 0
    n_assignments = 0
    for k in facts.family(cls):
        for defs in k.methods.values():
            for f in defs:
                for stmt, storage, value in ck.rebinds(f, storages):
                    tag = f"{ck.display_name(f)}:{storage}"
                    n_assignments += 1
                    if f.node.name in CONSTRUCTORS:
                        rep.note(f"re-bind of {storage} in constructor {ck.display_ref(f)}: exempt (object under construction)")
                        continue
                    v = value
                    while isinstance(v, ast.Subscript) or (isinstance(v, ast.Call) and isinstance(v.func, ast.Attribute) and v.func.attr in ck.VIEW_METHODS):
                        v = v.value if isinstance(v, ast.Subscript) else v.func.value
                    me = ck.first_param(f)
                    if v is not None and ck.is_attr_of(v, me) and ck.mangle(v.attr, f.cls.name) in storages - {storage}:
                        rep.oblige(f"rebind-derived:{tag}", True, f"view of {ck.mangle(v.attr, f.cls.name)}: address changes only when that attribute is re-bound")
                        continue
                    n_rebinds += 1
                    rep.saw("functions", f.ref)
                    invs = ck.invalidations(f, km.store_attr, {site.cache_name}, k)
                    ok = any(ck.covers(f, s, stmt) for s, _ in invs)
                    rep.oblige(f"rebind-invalidates:{tag}@{site.cache_name}", ok, [h for _, h in invs])
                    if not ok:
                        extra = f" (`extra_args` keys {by_content} by content only, which does not see a new array with equal contents)" if by_content else ""
                        rep.violation(
                            "C04.rebind-without-invalidation",
                            f"{ck.display_ref(f)}::{storage}@{site.cache_name}",
                            f"cached `{ck.display_name(site.func)}` hands out results bound to the memory address of `self.{'/'.join(attrs)}` "
                            f"(read in {', '.join(where)}); `{ck.display_name(f)}` re-binds `{storage}` to another array without dropping "
                            f"`self.{km.store_attr}` on that path, and `extra_args` holds no identity of the array{extra}: "
                            f"the cached result keeps reading the old memory",
                            line=stmt.lineno,
                            chain=list(caps[0].chain),
                        )
    if n_assignments == 0:
        raise AnalysisError(f"{site.ref}: no assignment to the storage {sorted(storages)} of the captured attribute(s) {attrs} was found in the class family: storage resolution failed")
    rep.extra.setdefault("rebind_statements", {})[ck.display_name(site.func)] = {"assignments": n_assignments, "obligations": n_rebinds}


def rule_arg_captures(rep: Report, ix, km: ck.KeyModel, ka: ck.KeyAnalysis, site: ck.Site, root: str, caps: list[ck.Capture], facts: ck.ClassFacts) -> None:
    """(b2) attributes of a keyed argument"""
    if root in site.ignore_args:
        return
    by_attr: dict[tuple[str, str | None], list[ck.Capture]] = {}
    for c in caps:
        by_attr.setdefault((c.owner.ref if c.owner else "?", c.attr), []).append(c)
    for (_, attr), cs in sorted(by_attr.items(), key=lambda kv: str(kv[0])):
        c0 = cs[0]
        where = sorted({f"{ck.display_name(c.func)}:{c.how}" for c in cs})
        role = f"{root}.{attr}" if attr else root
        if c0.owner is None or attr is None:
            if attr is None and not c0.path:
                # the argument itself is the array: arrays enter the key by content
                mode = km.containers.get("ndarray")
                ok = mode != "content"
                rep.oblige(f"arg-capture-keyed-by-identity:{ck.display_name(site.func)}:{role}", ok)
                if not ok:
                    rep.violation(
                        "C04.captured-address-keyed-by-content",
                        f"{site.ref}::{role}",
                        f"argument `{root}` is captured by address (in {', '.join(where)}) but arrays enter the key by content: another array with equal contents gets the result bound to the first one",
                        line=c0.line,
                    )
            else:
                rep.note(f"unclassified capture: {site.ref}: address of `{c0.root}.{'.'.join(c0.path)}` read in {where}; static type of the owner unknown")
            continue
        storages = facts.storage_of(c0.owner, attr)
        bad: list[str] = []
        details = {}
        for k in ix.subclasses(c0.owner):
            kind = ka.class_kind(k)
            if kind == "hook":
                hk = facts.chain(k, km.hook)
                ident: set[str] = set()
                for a in hk.identity_of if hk else ():
                    ident |= facts.storage_of(k, a)
                ok = bool(storages & ident)
                details[k.name] = f"hook {'reads' if ok else 'does not read'} the address of {sorted(storages)}"
            elif kind == "fallback":
                if not (storages & set(facts.inst_attrs(k))):
                    raise AnalysisError(f"{site.ref}: storage {sorted(storages)} of captured `{k.name}.{attr}` is not an instance attribute: cannot tell how it enters the key")
                ok = False
                details[k.name] = f"instance dict: {sorted(storages)} hashed by content"
            elif kind in ("identity", "custom-hash", "error"):
                ok = True  # not decided here: the object itself is the key (or hashing raises)
                details[k.name] = kind
            else:
                ok = True
                details[k.name] = kind
            if not ok:
                bad.append(k.name)
        rep.oblige(f"arg-capture-keyed-by-identity:{ck.display_name(site.func)}:{role}", not bad, details)
        if bad:
            rep.violation(
                "C04.captured-address-keyed-by-content",
                f"{site.ref}::{role}",
                f"cached `{ck.display_name(site.func)}` returns code bound to the memory address of `{c0.owner.name}.{attr}` of its argument `{root}` "
                f"(read in {', '.join(where)}), but for {', '.join(sorted(bad)[:6])}{'...' if len(bad) > 6 else ''} that attribute enters the cache key by content only: "
                f"a second object with equal contents but another array receives the result that reads the first array",
                line=c0.line,
                chain=list(c0.chain),
                classes=details,
            )


def rule_captures(rep: Report, ix, km: ck.KeyModel, ka: ck.KeyAnalysis, sites: list[ck.Site], facts: ck.ClassFacts) -> int:
    total = set()
    unresolved: set[str] = set()
    for site in sites:
        ca = ck.CaptureAnalysis(ix, facts)
        f = site.func
        me = ck.first_param(f)
        env = {me: ck.Taint(me, (), None, None, site.cls)}
        for p in site.params:
            env[p.name] = ck.Taint(p.name, (), None, None, ca.ann_class(f, p.annotation))
        ca.run(f, env, site.cls)
        for v in ca.visited:
            rep.saw("functions", v)
        unresolved |= ca.unresolved
        by_root: dict[str, list[ck.Capture]] = {}
        for c in ca.captures:
            by_root.setdefault(c.root, []).append(c)
            total.add((site.ref, c.root, c.attr))
        for root, caps in sorted(by_root.items()):
            if root == me:
                direct = [c for c in caps if c.direct]
                for c in caps:
                    if not c.direct:
                        rep.note(f"unclassified capture: {site.ref}: address of `self.{'.'.join(c.path)}` (object reached through self) read in {ck.display_ref(c.func)}")
                if direct:
                    rule_self_captures(rep, ix, km, site, direct, facts)
            else:
                rule_arg_captures(rep, ix, km, ka, site, root, caps, facts)
        if ca.captures:
            rep.sample(
                {
                    "site": site.ref,
                    "captures": sorted({f"{c.root}.{'.'.join(c.path)} @ {ck.display_name(c.func)}{c.how}" for c in ca.captures}),
                    "call_chain": list(ca.captures[0].chain),
                }
            )
    rep.extra["unresolved_calls_with_tracked_arguments"] = sorted(unresolved)[:80]
    return len(total)


# =====================================================================================
# (c) PDE._prepare_cache
# =====================================================================================
def attributes_coverage(ix, facts: ck.ClassFacts, prop: str) -> tuple[set[str], dict]:
    """attributes of a field covered by the dict returned by the property `prop`"""
    base = ix.cls("pde/fields/base.py", "FieldBase")
    per_class: dict[str, set[str]] = {}
    detail = {}

    def first_self_attr(e: ast.AST, me: str) -> set[str]:
        return {n.attr for n in ast.walk(e) if ck.is_attr_of(n, me)}

    def cover(cls: ClassInfo, g: FuncInfo) -> set[str]:
        me = ck.first_param(g)
        out: set[str] = set()
        embeds = False
        deleted: set[str] = set()
        for n in ck.walk_no_classes(g.node):
            if isinstance(n, ast.Dict):
                for k, v in zip(n.keys, n.values):
                    if k is None:
                        raise AnalysisError(f"{g.ref}: dict unpacking in `{prop}`")
                    out |= first_self_attr(v, me)
            elif isinstance(n, ast.Assign):
                for t in n.targets:
                    if isinstance(t, ast.Subscript) and isinstance(t.slice, ast.Constant):
                        out |= first_self_attr(n.value, me)
                        if any(isinstance(x, ast.Attribute) and x.attr == prop and not ck.is_call_to(x.value, "super") for x in ast.walk(n.value)):
                            embeds = True
            elif isinstance(n, ast.Delete):
                for t in n.targets:
                    if isinstance(t, ast.Subscript) and isinstance(t.slice, ast.Constant):
                        deleted.add(t.slice.value)
            if isinstance(n, ast.Attribute) and n.attr == prop and ck.is_call_to(n.value, "super"):
                mro = cls.mro()
                for c in mro[mro.index(g.cls) + 1 :]:
                    if prop in c.methods:
                        out |= cover(cls, c.methods[prop][0])
                        break
        if deleted and not embeds:
            out -= deleted
        return out

    for c in ix.subclasses(base):
        g = c.find_method(prop, "getter")
        if g is None or not ck.is_property(g):
            raise AnalysisError(f"{c.ref}: `{prop}` is not a property")
        per_class[c.name] = cover(c, g)
        detail[c.name] = sorted(per_class[c.name])
    common = set.intersection(*per_class.values()) if per_class else set()
    extra = set.union(*per_class.values()) - common if per_class else set()
    return common | extra, {"common": sorted(common), "class_specific": sorted(extra)}


def rule_prepare_cache(rep: Report, ix, facts: ck.ClassFacts) -> None:
    rel = "pde/pdes/pde.py"
    prep = ix.func(rel, "PDE._prepare_cache")
    comp = ix.func(rel, "PDE._compile_rhs_single")
    pde = ix.cls(rel, "PDE")
    field_base = ix.cls("pde/fields/base.py", "FieldBase")
    for f in (prep, comp):
        if "state" not in [p.arg for p in f.node.args.args + f.node.args.kwonlyargs]:
            raise AnalysisError(f"{f.ref}: parameter `state` vanished")
        rep.saw("functions", f.ref)

    # ---- the validity test: `if state.<a> == <cache read K>: return cache` + `cache[K] = state.<a>`
    compared: dict[str, str] = {}  # attribute -> cache key
    test_line = None
    # hoisted sub-expressions: local names bound to `state.<a>`
    alias = {}
    for n in ck.walk_no_classes(prep.node):
        if isinstance(n, ast.Assign) and len(n.targets) == 1 and isinstance(n.targets[0], ast.Name) and ck.is_attr_of(n.value, "state"):
            alias[n.targets[0].id] = n.value.attr

    def state_attr(e: ast.AST) -> str | None:
        if ck.is_attr_of(e, "state"):
            return e.attr
        if isinstance(e, ast.Name) and e.id in alias:
            return alias[e.id]
        return None

    for st in prep.node.body:
        if not (isinstance(st, ast.If) and any(isinstance(s, ast.Return) for s in st.body)):
            continue
        tests = st.test.values if isinstance(st.test, ast.BoolOp) and isinstance(st.test.op, ast.And) else [st.test]
        found = {}
        for t in tests:
            if not (isinstance(t, ast.Compare) and len(t.ops) == 1 and isinstance(t.ops[0], ast.Eq)):
                continue
            sides = [t.left, t.comparators[0]]
            for a, b in (sides, sides[::-1]):
                if state_attr(a) is not None:
                    key = None
                    for n in ast.walk(b):
                        if isinstance(n, ast.Call) and isinstance(n.func, ast.Attribute) and n.func.attr == "get" and n.args and isinstance(n.args[0], ast.Constant):
                            key = n.args[0].value
                        if isinstance(n, ast.Subscript) and isinstance(n.slice, ast.Constant):
                            key = n.slice.value
                    if key is not None:
                        found[state_attr(a)] = key
        if found:
            compared = found
            test_line = st.lineno
            break
    stored = {}
    for n in ck.walk_no_classes(prep.node):
        if isinstance(n, ast.Assign) and state_attr(n.value) is not None:
            for t in n.targets:
                if isinstance(t, ast.Subscript) and isinstance(t.slice, ast.Constant):
                    stored[t.slice.value] = state_attr(n.value)
    valid = {a: k for a, k in compared.items() if stored.get(k) == a}
    rep.oblige("prepare-cache:validity-test-present", bool(valid), {"compared": compared, "stored": stored})
    if not valid:
        rep.violation(
            "C04.validity-test",
            f"{prep.ref}::compare-state",
            "the compiled right-hand side is reused without comparing an attribute of `state` with the value stored when the cache was filled "
            f"(compared: {compared or 'nothing'}, stored: {stored or 'nothing'})",
            line=test_line or prep.node.lineno,
        )
        return
    covered: set[str] = set()
    detail = {}
    for a in valid:
        g = field_base.find_method(a, "getter")
        if g is not None and ck.is_property(g) and any(isinstance(n, ast.Dict) for n in ck.walk_no_classes(g.node)):
            cov, d = attributes_coverage(ix, facts, a)
            covered |= cov
            detail[a] = d
        else:
            covered.add(a)
    # ---- everything the compilation reads from `state`
    funcs: list[tuple[FuncInfo, str]] = [(prep, "state"), (comp, "state")]
    seen = {prep, comp}
    i = 0
    while i < len(funcs):
        f, sname = funcs[i]
        i += 1
        me = ck.first_param(f)
        for n in ck.walk_no_classes(f.node):
            if isinstance(n, ast.Call) and ck.is_attr_of(n.func, me):
                g = pde.find_method(n.func.attr)
                if g is None or g in seen:
                    continue
                params = [p.arg for p in g.node.args.args][1:]
                bound = None
                for k, a in enumerate(n.args):
                    if ck.is_name(a, sname) and k < len(params):
                        bound = params[k]
                for kw in n.keywords:
                    if kw.arg and ck.is_name(kw.value, sname):
                        bound = kw.arg
                if bound:
                    seen.add(g)
                    funcs.append((g, bound))
                    rep.saw("functions", g.ref)
    reads: dict[str, list[tuple[FuncInfo, ast.AST, ast.AST | None]]] = {}
    for f, sname in funcs:
        parents = {id(c): p for p in ck.walk_no_classes(f.node) for c in ast.iter_child_nodes(p)}
        for n in ck.walk_no_classes(f.node):
            if ck.is_attr_of(n, sname):
                reads.setdefault(n.attr, []).append((f, n, parents.get(id(n))))
            elif ck.is_call_to(n, "isinstance") and n.args and ck.is_name(n.args[0], sname):
                reads.setdefault("__class__", []).append((f, n, None))
            elif ck.is_call_to(n, "len") and n.args and ck.is_name(n.args[0], sname):
                reads.setdefault("fields", []).append((f, n, None))
            elif isinstance(n, (ast.For, ast.comprehension)) and ck.is_name(n.iter, sname):
                reads.setdefault("fields", []).append((f, n.iter, None))
    rep.floor("attributes of `state` read while compiling the rhs", len(reads), 4)
    rep.sample({"prepare_cache": {"compared": valid, "covers": sorted(covered), "detail": detail, "reads": {k: sorted({ck.display_name(f) for f, _, _ in v}) for k, v in reads.items()}}})
    for attr, uses in sorted(reads.items()):
        if attr in valid:
            continue
        ok = attr in covered
        why = "compared"
        if not ok and attr in DERIVED_READS:
            src, reason = DERIVED_READS[attr]
            ok = src in covered
            if attr == "data":
                ok = ok and all(isinstance(p, ast.Call) and dotted(p.func).split(".")[-1] == "iscomplexobj" for _, _, p in uses)
            why = f"function of `{src}`: {reason}"
        rep.oblige(f"prepare-cache:read-compared:{attr}", ok, why if ok else None)
        if not ok:
            f0, n0, _ = uses[0]
            rep.violation(
                "C04.validity-test-misses-read",
                f"{prep.ref}::state.{attr}",
                f"`{ck.display_name(f0)}` reads `state.{attr}` while compiling the right-hand side, but the validity test of the cache only compares "
                f"{sorted(valid)} (covering {sorted(covered)}): a state that differs in `{attr}` reuses code compiled for the earlier one",
                line=getattr(n0, "lineno", None),
            )


# =====================================================================================
# (d) state read by a cached method vs. state the class family changes later
# =====================================================================================
FLOOR_STATEFUL_SITES = 10  # cached sites whose body reads instance state (13 on the pinned tree)

# methods that receive the class, not an instance
CLASS_LEVEL_HOOKS = {"__init_subclass__", "__class_getitem__"}


def rule_cached_state(rep: Report, ix, km: ck.KeyModel, sites: list[ck.Site], facts: ck.ClassFacts, sf: ck.StateFacts) -> None:
    """every attribute (down to storage, through property getters and self-calls) that the
    body of a cached method reads must not be re-bound or written in place by a later
    method of the class family, unless that method drops the result store on that path or
    the attribute is part of the key (`extra_args`).  Constructors and helpers that are
    only called from constructors are exempt (immutable by construction); so are writes by
    methods the cached method itself runs (lazy initialisation)."""
    stateful = 0
    for site in sites:
        cls = site.cls
        reads, closure = sf.reads(cls, site.func)
        if reads:
            stateful += 1
        keyed: set[str] = set()
        for e in site.extra_args:
            keyed |= facts.storage_of(cls, e)
        stale: dict[str, list[str]] = {}
        linked: dict[str, list[str]] = {}
        first_line: dict[str, int] = {}
        for k in facts.family(cls):
            for defs in k.methods.values():
                for f in defs:
                    if f is site.func or f.node.name in CLASS_LEVEL_HOOKS:
                        continue
                    ws = [w for w in sf.writes(k, f) if w[1] in reads and w[1] not in keyed and w[1] != km.store_attr]
                    if not ws:
                        continue
                    if sf.constructor_only(f):
                        continue
                    if f in closure:
                        rep.note(f"lazy initialisation: {ck.display_ref(f)} writes {sorted({w[1] for w in ws})} and is run by cached {ck.display_name(site.func)} itself: exempt")
                        continue
                    rep.saw("functions", f.ref)
                    invs = ck.invalidations(f, km.store_attr, {site.cache_name}, k)
                    for st, storage, kind, value in ws:
                        ok = any(ck.covers(f, i, st) for i, _ in invs)
                        tag = f"{ck.display_name(site.func)}:{storage}@{ck.display_name(f)}"
                        if not any(o["name"] == f"state-write-invalidates:{tag}" and o["ok"] == ok for o in rep.obligations):
                            rep.oblige(f"state-write-invalidates:{tag}", ok, {"kind": kind, "invalidations": [h for _, h in invs]})
                        if not ok:
                            stale.setdefault(storage, [])
                            entry = f"{ck.display_name(f)} ({kind})"
                            if entry not in stale[storage]:
                                stale[storage].append(entry)
                            first_line.setdefault(storage, st.lineno)
                        if kind == "re-bind":
                            p_name = sf.links_parameter(f, value)
                            if p_name:
                                linked.setdefault(storage, []).append(f"{ck.display_name(f)}({p_name})")
                                first_line.setdefault("link:" + storage, st.lineno)
        for storage, writers in sorted(stale.items()):
            rep.violation(
                "C04.cached-reads-mutable-state",
                f"{site.ref}::{storage}",
                f"cached `{ck.display_name(site.func)}` reads `self.{storage}` (via {' -> '.join(reads[storage][-3:])}) and its result is stored in "
                f"`self.{km.store_attr}` under a key that does not contain it, but {', '.join(writers[:5])} change{'s' if len(writers) == 1 else ''} that attribute later without dropping "
                f"the stored result on that path: the method keeps returning values computed from the earlier state",
                line=first_line.get(storage),
                writers=writers,
            )
        for storage, linkers in sorted(linked.items()):
            rep.oblige(f"state-not-externally-owned:{ck.display_name(site.func)}:{storage}", False, linkers)
            rep.violation(
                "C04.cached-reads-linked-contents",
                f"{site.ref}::{storage}",
                f"cached `{ck.display_name(site.func)}` depends on the contents of `self.{storage}`, which {', '.join(sorted(set(linkers)))} binds to an object owned by the caller "
                f"(in-place changes of that object are the documented use): the cached result cannot follow them, whatever the method invalidates when linking",
                line=first_line.get("link:" + storage),
            )
        if reads:
            rep.extra.setdefault("state_read_by_cached_sites", {})[ck.display_name(site.func)] = sorted(reads)
    rep.floor("cached sites whose body reads instance state", stateful, FLOOR_STATEFUL_SITES)


# =====================================================================================
# (e) containers shared by reference between expressions, their copies and callers
# =====================================================================================
EXPR_MODULE = "pde/tools/expressions.py"
# namespaces built while compiling an expression are decided by C11.namespace-fresh-copy
SHARED_CONTAINER_SKIP_PREFIX = "pde/backends/"


def _aliased_param(v: ast.AST, params: set[str]) -> str | None:
    """parameter whose object the expression evaluates to (no copy in between)"""
    if isinstance(v, ast.Name) and v.id in params:
        return v.id
    if isinstance(v, ast.IfExp):
        return _aliased_param(v.body, params) or _aliased_param(v.orelse, params)
    if isinstance(v, ast.BoolOp):
        for x in v.values:
            p = _aliased_param(x, params)
            if p:
                return p
    return None


def _mutations(f, match):
    """(statement, attribute, how) for in-place changes of a container `match` recognises"""
    out = []
    for st in ck.walk_no_classes(f.node):
        if isinstance(st, ast.Expr) and isinstance(st.value, ast.Call) and isinstance(st.value.func, ast.Attribute) and st.value.func.attr in ck.MUTATOR_METHODS:
            a = match(st.value.func.value)
            if a:
                out.append((st, a, f".{st.value.func.attr}(...)"))
        elif isinstance(st, (ast.Assign, ast.AugAssign)):
            for t in st.targets if isinstance(st, ast.Assign) else [st.target]:
                if isinstance(t, ast.Subscript):
                    a = match(t.value)
                    if a:
                        out.append((st, a, "[k] = ..."))
                elif isinstance(st, ast.AugAssign) and isinstance(st.op, ast.BitOr):
                    a = match(t)
                    if a:
                        out.append((st, a, "|= ..."))
        elif isinstance(st, ast.Delete):
            for t in st.targets:
                if isinstance(t, ast.Subscript):
                    a = match(t.value)
                    if a:
                        out.append((st, a, "del [k]"))
    return out


def _all_fresh(g, name: str) -> bool:
    """`name` is a local of `g` (not a parameter) that is only ever bound to new containers"""
    a = g.node.args
    if name in {p.arg for p in a.posonlyargs + a.args + a.kwonlyargs}:
        return False
    values = []
    for n in ck.walk_no_classes(g.node):
        if isinstance(n, ast.Assign) and any(ck.is_name(t, name) for t in n.targets):
            values.append(n.value)
        elif isinstance(n, ast.AnnAssign) and ck.is_name(n.target, name) and n.value is not None:
            values.append(n.value)
        elif isinstance(n, (ast.For, ast.comprehension)) and any(ck.is_name(x, name) for x in ast.walk(n.target)):
            return False
    return bool(values) and all(ck.is_fresh_container(v) for v in values)


def rule_shared_containers(rep: Report, ix, facts: ck.ClassFacts) -> None:
    base = ix.cls(EXPR_MODULE, "ExpressionBase")
    init = ix.func(EXPR_MODULE, "ExpressionBase.__init__")
    for anchor in ("ScalarExpression.__init__", "TensorExpression.__init__", "ScalarExpression.copy"):
        ix.func(EXPR_MODULE, anchor)
    family = ix.subclasses(base)
    me = ck.first_param(init)
    a = init.node.args
    params = {p.arg for p in a.posonlyargs + a.args + a.kwonlyargs} - {me}
    shared: dict[str, str] = {}  # attribute -> constructor parameter it aliases
    assigned: set[str] = set()
    for n in ck.walk_own(init.node):
        if isinstance(n, ast.Assign):
            for t in n.targets:
                if ck.is_attr_of(t, me):
                    assigned.add(t.attr)
                    p = _aliased_param(n.value, params)
                    if p and not ck.is_fresh_container(n.value):
                        shared[t.attr] = p
    for needed in ("user_funcs", "consts"):
        if needed not in assigned:
            raise AnalysisError(f"{init.ref}: assignment to `self.{needed}` vanished: cannot tell whether the container is shared")
    rep.saw("functions", init.ref)
    rep.sample({"expression_containers": {"assigned_in_constructor": sorted(assigned), "bound_to_the_argument_object": shared, "note": "copies made by <cls>(expression) pass the same objects on"}})
    if not shared:
        rep.oblige("expression-containers-private", True, "ExpressionBase.__init__ stores new containers: in-place changes stay local")
        return
    by_param = {p: attr for attr, p in shared.items()}
    n_checked = 0

    def report(f, st, attr: str, how: str, why: str) -> None:
        rep.violation(
            "C04.shared-container-mutated",
            f"{ck.display_ref(f)}::{attr}",
            f"`{ck.display_name(f)}` changes the `{attr}` container of an expression in place (`{ast.unparse(st)[:70]}`), but {why}: "
            f"`ExpressionBase.__init__` stores the argument object itself and copies pass it on, so the change is seen by the caller's dictionary and by every other "
            f"expression/PDE built from it (results then depend on what was compiled or constructed before)",
            line=st.lineno,
        )

    # ---- inside the expression classes
    for k in family:
        for defs in k.methods.values():
            for f in defs:
                sme = ck.first_param(f)
                fa = f.node.args
                fparams = {p.arg for p in fa.posonlyargs + fa.args + fa.kwonlyargs}
                alias: dict[str, str] = {}
                is_ctor = f.node.name in ck.CONSTRUCTOR_NAMES
                if is_ctor:
                    if f is init:
                        alias = {p: attr for attr, p in shared.items()}
                    for n in ck.walk_no_classes(f.node):
                        if isinstance(n, ast.Call) and isinstance(n.func, ast.Attribute) and n.func.attr == "__init__":
                            for kw in n.keywords:
                                if kw.arg in by_param and isinstance(kw.value, ast.Name):
                                    alias[kw.value.id] = by_param[kw.arg]

                def match(e, sme=sme, alias=alias):
                    if sme and ck.is_attr_of(e, sme) and e.attr in shared:
                        return e.attr
                    if isinstance(e, ast.Name) and e.id in alias:
                        return alias[e.id]
                    return None

                for st, attr, how in _mutations(f, match):
                    n_checked += 1
                    rep.saw("functions", f.ref)
                    target = st.value.func.value if isinstance(st, ast.Expr) else None
                    name = None
                    for x in ast.walk(st):
                        if isinstance(x, ast.Name) and x.id in alias:
                            name = x.id
                    ok = False
                    why = f"`self.{attr}` may be the object the caller passed in"
                    if name is not None:
                        # a local/parameter name: fine when a new container was bound to it on every path before
                        fresh = [
                            n
                            for n in ck.walk_no_classes(f.node)
                            if isinstance(n, (ast.Assign, ast.AnnAssign)) and n.value is not None and any(ck.is_name(t, name) for t in (n.targets if isinstance(n, ast.Assign) else [n.target])) and ck.is_fresh_container(n.value)
                        ]
                        ok = any(ck.dominates(f, n, st) for n in fresh)
                        why = f"`{name}` is {'the argument of the caller' if name in fparams else 'bound to the container of another expression'} on this path (no new container is bound to it before)"
                    rep.oblige(f"container-mutation-on-private-copy:{ck.display_name(f)}:{attr}:{how}", ok)
                    if not ok:
                        report(f, st, attr, how, why)

    # ---- everywhere else (except the namespace builders of the backends: C11)
    fam_set = set(family)
    for f in ix.all_functions():
        if f.module.rel.startswith(SHARED_CONTAINER_SKIP_PREFIX) or (f.cls in fam_set) or (ck.top_function(f).cls in fam_set):
            continue
        top = ck.top_function(f)
        sme = ck.first_param(top) if top.cls is not None else None
        local_alias: dict[str, str] = {}
        for n in ck.walk_no_classes(f.node):
            if isinstance(n, ast.Assign) and isinstance(n.value, ast.Attribute) and n.value.attr in shared and not (sme and ck.is_name(n.value.value, sme)):
                for t in n.targets:
                    if isinstance(t, ast.Name):
                        local_alias[t.id] = n.value.attr

        def match2(e, sme=sme, local_alias=local_alias):
            if isinstance(e, ast.Attribute) and e.attr in shared and not (sme and ck.is_name(e.value, sme)):
                return e.attr
            if isinstance(e, ast.Name) and e.id in local_alias:
                return local_alias[e.id]
            return None

        muts = _mutations(f, match2)
        if not muts or f.parent is not None and any(m[0] in [x[0] for x in _mutations(f.parent, match2)] for m in muts):
            if not muts:
                continue
        scope = [g for k in (facts.family(top.cls) if top.cls is not None else []) for defs in k.methods.values() for g in defs] or [top]
        for st, attr, how in muts:
            n_checked += 1
            rep.saw("functions", f.ref)
            param = shared[attr]
            sites_found, not_fresh = 0, []
            for g in scope:
                for n in ck.walk_no_classes(g.node):
                    if not isinstance(n, ast.Call) or not isinstance(n.func, (ast.Name, ast.Attribute)):
                        continue
                    r = ck.resolve_in_func(ix, g, ck.dotted(n.func))
                    if not (isinstance(r, ClassInfo) and r in fam_set):
                        continue
                    sites_found += 1
                    if any(kw.arg is None for kw in n.keywords):
                        not_fresh.append(f"{ck.display_name(g)}: **kwargs")
                        continue
                    v = next((kw.value for kw in n.keywords if kw.arg == param), None)
                    if v is None or (isinstance(v, ast.Constant) and v.value is None) or ck.is_fresh_container(v):
                        continue
                    if isinstance(v, ast.Name) and _all_fresh(g, v.id):
                        continue
                    not_fresh.append(f"{ck.display_name(g)}: {param}={ast.unparse(v)}")
            ok = sites_found > 0 and not not_fresh
            rep.oblige(f"container-mutation-on-private-copy:{ck.display_name(f)}:{attr}:{how}", ok, {"constructions": sites_found, "not_fresh": not_fresh})
            if not ok:
                why = (
                    f"the expressions of `{top.cls.name if top.cls else ck.display_name(top)}` are built with the caller's object ({'; '.join(not_fresh[:3])})"
                    if not_fresh
                    else "no construction of the expression with a new container was found in this class: it may hold the caller's object"
                )
                report(f, st, attr, how, why)
    # ---- arguments: a function that receives such a container (a parameter named like the constructor parameter of the
    # expression classes) and hands it on must not change the caller's object either -- e.g. a derived entry written into
    # the caller's `consts` is found again (stale) by the next call with the same dictionary
    arg_names = set(shared.values())
    for f in ix.all_functions():
        if f.module.rel.startswith(SHARED_CONTAINER_SKIP_PREFIX) or (f.cls in fam_set) or (ck.top_function(f).cls in fam_set):
            continue
        fa = f.node.args
        fparams = {p.arg for p in fa.posonlyargs + fa.args + fa.kwonlyargs} & arg_names
        if not fparams:
            continue

        def match3(e, fparams=fparams):
            return e.id if isinstance(e, ast.Name) and e.id in fparams else None

        for st, name, how in _mutations(f, match3):
            n_checked += 1
            rep.saw("functions", f.ref)
            fresh = [
                n
                for n in ck.walk_no_classes(f.node)
                if isinstance(n, (ast.Assign, ast.AnnAssign)) and n.value is not None and any(ck.is_name(t, name) for t in (n.targets if isinstance(n, ast.Assign) else [n.target])) and ck.is_fresh_container(n.value)
            ]
            ok = any(ck.dominates(f, n, st) for n in fresh)
            rep.oblige(f"argument-container-not-mutated:{ck.display_name(f)}:{name}:{how}", ok)
            if not ok:
                rep.violation(
                    "C04.shared-container-mutated",
                    f"{ck.display_ref(f)}::argument::{name}",
                    f"`{ck.display_name(f)}` changes its argument `{name}` in place (`{ast.unparse(st)[:70]}`) on a path where it is still the caller's object: the entry stays in the caller's dictionary and is "
                    "found again by the next call with the same dictionary (a value derived from this call's grid / state is then silently re-used: the result depends on what was computed before)",
                    line=st.lineno,
                )
    rep.extra["shared_container_mutations_checked"] = n_checked


# =====================================================================================
# (f) numbers must not enter a key through the builtin hash
# =====================================================================================
def _floaty_leaves(atoms, path: str = "") -> list[str]:
    out = []
    for a in atoms:
        here = f"{path}.{a.label}" if a.kind == "attr" and path else (a.label if a.kind == "attr" else path)
        if a.kind == "value" and a.label in ck.FLOATY_NAMES:
            out.append(path or a.label)
        out += _floaty_leaves(a.children, here if a.kind == "attr" else path)
    return out


def rule_numeric_hash(rep: Report, ix, km: ck.KeyModel, ka: ck.KeyAnalysis, facts: ck.ClassFacts, site_atoms: dict) -> None:
    """results are looked up by the integer key alone (no comparison of the arguments), so
    the key must separate different numbers; CPython's hash does not: hash(-1) == hash(-2),
    hash(-1.0) == hash(-2.0)"""
    # (A) numbers that reach `hash(obj)` in hash_mutable
    affected = []
    for site, per_param in site_atoms.items():
        for pname, atoms in per_param.items():
            for leaf in _floaty_leaves(atoms, pname):
                affected.append(f"{ck.display_name(site.func)}({leaf})")
    affected = sorted(set(affected))
    reach = km.numbers_reach_builtin_hash()
    ok = not (reach and affected)
    rep.oblige("numbers-keyed-injectively:hash_mutable", ok, {"numbers_reach_builtin_hash": reach, "float_valued_key_leaves": affected[:12]})
    if not ok:
        rep.violation(
            "C04.numeric-key-hash-collides",
            f"{km.func.ref}::hash(obj)",
            f"cached results are looked up by the integer key alone, and hash_mutable keys numbers by the builtin `hash(obj)`, which maps different numbers to one value "
            f"(hash(-1) == hash(-2), hash(-1.0) == hash(-2.0)): calls that differ only in such a number share one cached result. Number-valued key parts: "
            f"{', '.join(affected[:6])}{'...' if len(affected) > 6 else ''}",
            line=km.hash_line,
            affected=affected,
        )
    # (B) hooks that feed raw numeric attributes to the builtin hash
    if not km.hook:
        return
    kt = ck.KeyAnalysis(ix, km, facts)  # typing only
    hooked = sorted((c for c, k in ka.kinds.items() if k == "hook" and c in ka.reached), key=lambda c: c.ref)
    done: set = set()
    for c in hooked:
        hk = facts.chain(c, km.hook)
        for d in hk.definers if hk else ():
            if d in done:
                continue
            done.add(d)
            me = ck.first_param(d)
            raw: dict[str, str] = {}

            def collect(e, me=me, raw=raw):
                if ck.is_attr_of(e, me):
                    raw[e.attr] = ""
                elif isinstance(e, (ast.Tuple, ast.List)):
                    for x in e.elts:
                        collect(x)
                elif isinstance(e, ast.Starred):
                    collect(e.value)
                elif isinstance(e, ast.Call) and isinstance(e.func, ast.Name) and e.func.id in ("tuple", "list", "sorted", "frozenset"):
                    for x in e.args:
                        collect(x)
                elif isinstance(e, ast.Name):
                    # hoisted sub-expression
                    for n in ck.walk_no_classes(d.node):
                        if isinstance(n, ast.Assign) and any(ck.is_name(t, e.id) for t in n.targets):
                            collect(n.value)

            for n in ck.walk_no_classes(d.node):
                if isinstance(n, ast.Call) and ck.is_name(n.func, "hash"):
                    for x in n.args:
                        collect(x)
            floaty = []
            inty = []
            for attr in sorted(raw):
                owner = d.cls
                g = owner.find_method(attr, "getter") if owner else None
                atoms = []
                if g is not None and ck.is_property(g) and g.node.returns is not None:
                    atoms = kt.classify(g.module, g.node.returns, f"{d.ref}.{attr}")
                else:
                    info = facts.inst_attrs(owner).get(ck.mangle(attr, owner.name)) if owner else None
                    for h in (info.hints if info else [])[:2]:
                        if not isinstance(h, ClassInfo):
                            atoms += kt.classify(h[0], h[1], f"{d.ref}.{attr}")
                labels = set()
                todo = list(atoms)
                while todo:
                    a0 = todo.pop()
                    if a0.kind == "value":
                        labels.add(a0.label)
                    todo += a0.children
                if labels & ck.FLOATY_NAMES:
                    floaty.append(attr)
                elif labels & {"int", "Integral", "integer"}:
                    inty.append(attr)
            rep.oblige(f"numbers-keyed-injectively:{ck.display_name(d)}", not floaty, {"float_valued": floaty, "int_valued_not_decided": inty})
            if inty:
                rep.note(f"not decided: {ck.display_ref(d)} feeds int-valued attributes {inty} to the builtin hash (injective for 0 <= n < 2**61-1 only; the range is not known statically)")
            if floaty:
                rep.violation(
                    "C04.numeric-key-hash-collides",
                    f"{ck.display_ref(d)}::builtin-hash",
                    f"`{ck.display_name(d)}` feeds the float-valued attribute(s) {', '.join(floaty)} to the builtin `hash`, which maps different numbers to one value "
                    f"(hash(-1.0) == hash(-2.0), and tuples of them alike): objects that differ only there get the same cache key although `__eq__` separates them",
                    line=d.node.lineno,
                )


# =====================================================================================
# the check
# =====================================================================================

# ----------------------------------------------------------------------------
# (g) cached results must not be objects with a public mutation interface
# ----------------------------------------------------------------------------
MUTATORS = {"__setitem__", "__delitem__", "__iadd__", "__isub__", "__imul__", "__itruediv__", "__ipow__"}


def _mutation_interface(c) -> list[str]:
    """public ways of changing an instance of the class in place: item assignment, in-place
    operators, property setters (public names)"""
    out = []
    for k in c.mro():
        for name, defs in k.methods.items():
            if name in MUTATORS:
                out.append(f"{k.name}.{name}")
            for f in defs:
                if any(d.endswith(".setter") for d in f.decorator_names) and not name.startswith("_"):
                    out.append(f"{k.name}.{name} (setter)")
    return sorted(set(out))


def rule_cached_mutable_result(rep: Report, ix, sites) -> None:
    """The cache hands the *same* object to every caller with an equal key.  If that object is
    an instance of a repository class with a public mutation interface (e.g. BoundariesList:
    `bcs["left"] = ...`, `.value = ...`), a caller that customises what it received changes
    what every later caller gets for the same request: results depend on history."""
    n = 0
    for site in sites:
        f = site.func
        classes = {}
        names = set()
        if f.node.returns is not None:
            for x in ast.walk(f.node.returns):
                if isinstance(x, ast.Name):
                    names.add(x.id)
                elif isinstance(x, ast.Constant) and isinstance(x.value, str):
                    try:
                        for y in ast.walk(ast.parse(x.value, mode="eval")):
                            if isinstance(y, ast.Name):
                                names.add(y.id)
                    except SyntaxError:
                        pass
        # classes constructed in return statements: `return Cls(...)` / `return Cls.from_x(...)`
        for r in ast.walk(f.node):
            if isinstance(r, ast.Return) and isinstance(r.value, ast.Call):
                fn = r.value.func
                if isinstance(fn, ast.Name):
                    names.add(fn.id)
                elif isinstance(fn, ast.Attribute) and isinstance(fn.value, ast.Name):
                    names.add(fn.value.id)
        for nm in names:
            c = ix.resolve_class(f.module, nm)
            if c is None:
                # names imported under TYPE_CHECKING only
                cands = [k for k in ix.all_classes() if k.name == nm]
                c = cands[0] if len(cands) == 1 else None
            if c is not None:
                classes[c.name] = c
                # an annotation names an upper bound: any subclass may be what is returned
                for sub in ix.subclasses(c, strict=True):
                    classes.setdefault(sub.name, sub)
        n += 1
        bad = {nm: _mutation_interface(c) for nm, c in classes.items()}
        bad = {k: v for k, v in bad.items() if v}
        rep.oblige(f"cached-result-immutable:{ck.display_name(f)}", not bad, {"result classes": sorted(classes), "mutation interface": bad})
        for nm, how in bad.items():
            rep.violation(
                "C04.cached-mutable-result",
                f"{site.ref}::returns={nm}",
                f"`{ck.display_name(f)}` is cached but returns a `{nm}`, which callers can change in place ({', '.join(how[:4])}): the one cached instance is shared by every later "
                "caller with an equal key, so a caller that customises the object it got changes the result of later, unrelated requests",
                line=f.node.lineno,
            )
    rep.floor("cached sites whose result type was inspected", n, FLOOR_SITES)



# ----------------------------------------------------------------------------
# (h) keys are computed from the current state / resolved objects; solver state does not leak between runs
# ----------------------------------------------------------------------------
def rule_fresh_keys_and_state(rep: Report, ix, km: ck.KeyModel) -> None:
    """(h1) a `_cache_hash` hook recomputes its value at every call: a hook that stores its result on the object and hands
    the stored value out again (memoisation) goes stale when nested state (axis / side objects, linked values) is changed
    without passing through the owner's own mutators.  (h2) GridBase.make_operator hands the *resolved* operator info
    (the result of get_operator_info, which carries the factory) to the cached back-end method, not the bare name: the
    name alone does not tell two implementations registered under one name apart.  (h3) make_stepper methods of the
    solver classes do not read entries of `self.info` that the same call has not written before: `info` survives from the
    previous run of the solver object (last adaptive step, step counter), so reading it makes a run depend on history."""
    # (h1)
    n_h = 0
    if km.hook:
        for c in ix.all_classes():
            for f in c.methods.get(km.hook, []):
                n_h += 1
                stores = {t.attr for st in ast.walk(f.node) if isinstance(st, (ast.Assign, ast.AnnAssign)) for t in ([st.target] if isinstance(st, ast.AnnAssign) else st.targets) if isinstance(t, ast.Attribute) and isinstance(t.value, ast.Name) and t.value.id == "self"}
                rets = {r.value.attr for r in ast.walk(f.node) if isinstance(r, ast.Return) and isinstance(r.value, ast.Attribute) and isinstance(r.value.value, ast.Name) and r.value.value.id == "self"}
                memo = sorted(stores & rets)
                rep.oblige(f"hook-recomputed:{c.name}.{km.hook}", not memo, memo)
                if memo:
                    rep.violation(
                        "C04.hook-memoised",
                        f"{f.ref}::{memo[0]}",
                        f"`{c.name}.{km.hook}` stores its value in `self.{memo[0]}` and returns the stored value on later calls: the key of every cache that uses it goes stale when the "
                        "state it was computed from changes through nested objects (e.g. `bcs[0].low = ...`, `bcs['x'][0] = ...`), so a cached operator compiled for the old conditions is returned",
                        line=f.node.lineno,
                    )
    rep.floor("`_cache_hash` hooks inspected for memoisation", n_h, 3)
    # (h2)
    f = ix.func("pde/grids/base.py", "GridBase.make_operator")
    calls = [c for c in ast.walk(f.node) if isinstance(c, ast.Call) and isinstance(c.func, ast.Attribute) and c.func.attr == "make_operator" and not (isinstance(c.func.value, ast.Name) and c.func.value.id in ("grid", "self"))]
    if len(calls) != 1:
        raise AnalysisError(f"{f.ref}: expected exactly one call of the back-end's make_operator, found {len(calls)}")
    call = calls[0]
    arg = call.args[1] if len(call.args) > 1 else next((k.value for k in call.keywords if k.arg == "operator"), None)
    resolved = False
    if isinstance(arg, ast.Name):
        defs = [st.value for st in ast.walk(f.node) if isinstance(st, ast.Assign) and any(isinstance(t, ast.Name) and t.id == arg.id for t in st.targets)]
        resolved = bool(defs) and all(isinstance(d, ast.Call) and isinstance(d.func, ast.Attribute) and d.func.attr == "get_operator_info" for d in defs)
    elif isinstance(arg, ast.Call) and isinstance(arg.func, ast.Attribute) and arg.func.attr == "get_operator_info":
        resolved = True
    rep.oblige("GridBase.make_operator keys the cached back-end operator by the resolved operator info", resolved, ast.unparse(arg) if arg is not None else None)
    if not resolved:
        rep.violation(
            "C04.key-unresolved-name",
            f"{f.ref}::backend-make_operator::operator",
            f"the cached back-end method is called with `{ast.unparse(arg) if arg is not None else None}`, not with the result of get_operator_info(...): the cache key then holds only the operator's "
            "name, so after another implementation is registered under that name the operator compiled for the old one is returned",
            line=call.lineno,
        )
    # (h3)
    n_s = 0
    for rel, m in ix.modules.items():
        if not rel.startswith("pde/solvers/"):
            continue
        for fi in m.functions.values():
            if fi.node.name != "make_stepper" or fi.cls is None:
                continue
            n_s += 1
            written: set[str] = set()
            events = []
            for st in ast.walk(fi.node):
                if isinstance(st, ast.Assign):
                    for t in st.targets:
                        if isinstance(t, ast.Subscript) and ast.unparse(t.value) == "self.info" and isinstance(t.slice, ast.Constant):
                            events.append((st.lineno, "w", t.slice.value, st))
                for x in ast.walk(st) if isinstance(st, ast.stmt) else []:
                    pass
            for x in ast.walk(fi.node):
                key = None
                if isinstance(x, ast.Subscript) and isinstance(x.ctx, ast.Load) and ast.unparse(x.value) == "self.info" and isinstance(x.slice, ast.Constant):
                    key = x.slice.value
                elif isinstance(x, ast.Call) and isinstance(x.func, ast.Attribute) and x.func.attr in ("get", "pop", "setdefault") and ast.unparse(x.func.value) == "self.info" and x.args and isinstance(x.args[0], ast.Constant):
                    key = x.args[0].value
                if key is not None:
                    events.append((x.lineno, "r", key, x))
            events.sort(key=lambda e: (e[0], 0 if e[1] == "w" else 1))
            nested = {id(y) for g in fi.nested() for y in ast.walk(g.node)}
            for line, kind, key, node in events:
                if id(node) in nested:
                    continue
                if kind == "w":
                    written.add(key)
                elif key not in written:
                    rep.violation(
                        "C04.solver-state-read",
                        f"{fi.ref}::info[{key!r}]",
                        f"`{ast.unparse(node)[:70]}` reads info[{key!r}] before this call has written it: the entry is whatever the previous run of this solver object left there "
                        "(e.g. the last adaptive time step), so the new simulation depends on what was run before",
                        line=line,
                    )
    rep.oblige("make_stepper methods read no solver info left by a previous run", not any(x.rule == "C04.solver-state-read" for x in rep.findings), n_s)
    rep.floor("make_stepper methods of solver classes", n_s, 2)



def rule_expression_evaluators_keyed_by_consts(rep: Report, ix, sites) -> None:
    """The back-ends copy the *values* of `expression.consts` into the evaluator they build (make_expression_function binds
    them as a partial application).  `consts` is a public, mutable dictionary (PDE fills constants in after construction;
    callers pass their own dict).  A cached method of an expression class whose result is such an evaluator must therefore
    carry `consts` in its key (extra_args), otherwise an evaluator built before a constant was changed keeps being handed
    out: the value of the expression depends on whether it was evaluated before the change."""
    base = ix.cls("pde/tools/expressions.py", "ExpressionBase")
    classes = set(ix.subclasses(base))

    def reaches_evaluator(f: FuncInfo, depth: int = 0, seen=None) -> bool:
        seen = seen or set()
        if f in seen or depth > 4:
            return False
        seen.add(f)
        for c in ast.walk(f.node):
            if not isinstance(c, ast.Call):
                continue
            fn = c.func
            if isinstance(fn, ast.Attribute) and fn.attr in ("make_expression_function", "_make_expression_array") and any(isinstance(a, ast.Name) and a.id == "self" for a in list(c.args) + [k.value for k in c.keywords]):
                return True
            if isinstance(fn, ast.Attribute) and isinstance(fn.value, ast.Name) and fn.value.id == "self" and f.cls is not None:
                g = f.cls.find_method(fn.attr)
                if g is not None and reaches_evaluator(g, depth + 1, seen):
                    return True
        return False

    n = 0
    for site in sites:
        f = site.func
        if f.cls is None or f.cls not in classes:
            continue
        if not reaches_evaluator(f):
            continue
        n += 1
        ok = "consts" in site.extra_args
        rep.oblige(f"evaluator-keyed-by-consts:{ck.display_name(f)}", ok, {"extra_args": site.extra_args})
        if not ok:
            rep.violation(
                "C04.evaluator-ignores-consts",
                f"{site.ref}::consts",
                f"`{ck.display_name(f)}` is cached (extra_args={site.extra_args}) and returns an evaluator into which the back-end has copied the values of `self.consts`, but `consts` is not part of the "
                "key: after `expr.consts[name] = new` the evaluator built earlier is returned again and the expression is evaluated with the old constant",
                line=f.node.lineno,
            )
    rep.floor("cached expression methods that hand out evaluators", n, 2)


def rule_cache_inventory(rep: Report, ix, km: ck.KeyModel) -> None:
    """Everything C04 proves concerns the decorator sites, the `_cache_hash` hooks and PDE._prepare_cache.  A memoisation
    written by hand with `hash_mutable(...)` as its key is outside that analysis -- and for boundary conditions the key is
    wrong by construction whenever the cached value has boundary *values* baked in: ConstBCBase hashes a linked value by the
    address of the linked array (right for compiled operators that read the array at call time), so the key does not change
    when the array's contents do.  Rule: `hash_mutable` is called only inside tools/cache.py and inside `_cache_hash` hooks."""
    uses = []
    for rel, m in ix.modules.items():
        if rel == "pde/tools/cache.py":
            continue
        for f in m.functions.values():
            if f.node.name == km.hook:
                continue
            own_nested = {id(x) for g in f.nested() for x in ast.walk(g.node)}
            for c in ast.walk(f.node):
                if id(c) in own_nested:
                    continue
                if isinstance(c, ast.Call) and ast.unparse(c.func).split(".")[-1] == "hash_mutable":
                    uses.append((f, c))
    rep.oblige("hash_mutable is used as a key only by the cache module and the `_cache_hash` hooks", not uses, [f"{f.ref}: {ast.unparse(c)[:50]}" for f, c in uses])
    for f, c in uses:
        rep.violation(
            "C04.unlisted-cache",
            f"{f.ref}::hash_mutable",
            f"`{ast.unparse(c)[:60]}` keys a hand-written memoisation: boundary conditions hash linked values by the address of the linked array, so a cached object that has the boundary "
            "values baked in (e.g. an assembled matrix/vector) is handed out again after the linked array was updated in place -- the result depends on what was computed before",
            line=c.lineno,
        )


def check(tier: str) -> Report:
    rep = Report("C04", tier, "other", "cache-key composition read from tools/cache.py + class index; interprocedural address-capture tracking; re-bind/invalidation rule")
    rep.explanation = (
        "hash_mutable and the cache decorator are read from tools/cache.py (dispatch order, mapping-key filter, __dict__ fallback, key parts, "
        "result store). Every @cached_method/@cached_property site is inventoried and each annotated argument type is classified by what it "
        "contributes to the key (closure over subclasses and over the instance attributes the fallback recurses into). Rules: sibling classes "
        "with equal instance attributes must not be keyed class-blind; a _cache_hash must mention the class and all that __eq__ compares; "
        "ignore_args must not name a used argument; an array whose address is captured (.ctypes / __array_interface__, followed through "
        "resolved calls) must be invalidated on every re-bind (self) or keyed by address (argument); PDE._prepare_cache must compare all it reads from state. "
        "Every attribute a cached method reads (through getters and self-calls) must not be changed later by the class family without dropping the result "
        "store; containers that ExpressionBase.__init__ shares with its caller and its copies must not be changed in place; numbers must not be keyed by the builtin hash."
    )
    rep.trusted = ["CPython ast", "parameter annotations of the repository", "Python data model (__eq__ without __hash__ => unhashable)"]
    ix = get_index()
    facts = ck.ClassFacts(ix)

    # anchors (a vanished anchor is an analysis error, never a pass)
    km = ck.read_key_model(ix)
    for rel, qn in (
        ("pde/backends/numba/backend.py", "NumbaBackend.make_operator"),
        ("pde/backends/numba/backend.py", "NumbaBackend.make_interpolator"),
        ("pde/grids/base.py", "GridBase.make_operator_no_bc"),
        ("pde/grids/base.py", "GridBase.make_operator"),
        ("pde/fields/datafield_base.py", "DataFieldBase.make_interpolator"),
        ("pde/fields/collection.py", "FieldCollection.__init__"),
        ("pde/backends/numba/utils.py", "make_array_constructor"),
        ("pde/backends/registry.py", "get_backend"),
    ):
        ix.func(rel, qn)
    ix.funcs("pde/fields/base.py", "FieldBase._data_full")
    for rel, name in (
        ("pde/grids/boundaries/local.py", "BCBase"),
        ("pde/grids/boundaries/axes.py", "BoundariesBase"),
        ("pde/grids/boundaries/axis.py", "BoundaryAxisBase"),
        ("pde/grids/base.py", "GridBase"),
        ("pde/backends/base.py", "BackendBase"),
    ):
        ix.cls(rel, name)

    rule_key_model(rep, km)

    # ---- inventory + classification of every argument
    sites = ck.cached_sites(ix)
    rep.floor("@cached_method/@cached_property sites", len(sites), FLOOR_SITES)
    ka = ck.KeyAnalysis(ix, km, facts)
    site_atoms: dict = {}
    for site in sites:
        rep.saw("cached_sites", site.ref)
        if site.hash_function not in (None, "hash_mutable"):
            raise AnalysisError(f"{site.ref}: hash_function={site.hash_function!r} is outside the key model")
        key = {}
        ok_site = True
        site_atoms[site] = {}
        for p in site.params:
            via = f"{ck.display_name(site.func)}({p.name})"
            if p.kind in ("kwarg", "vararg"):
                key[("**" if p.kind == "kwarg" else "*") + p.name] = "unclassified (values of any type are hashed as they come)"
                rep.note(f"unclassified: {site.ref}: values passed through `{'**' if p.kind == 'kwarg' else '*'}{p.name}` enter the key without a declared type")
                continue
            if p.name in site.ignore_args and p.kind == "kwonly":
                key[p.name] = "ignored (ignore_args)"
                continue
            n_opaque = len(ka.opaque)
            atoms = ka.classify(site.func.module, p.annotation, via)
            site_atoms[site][p.name] = atoms
            key[p.name] = ck.atoms_text(atoms)
            kinds = ck.atom_kinds(atoms)
            if "error" in kinds:
                ok_site = False
            for msg in ka.opaque[n_opaque:]:
                rep.note(f"unclassified: {site.ref}: {msg}")
        for e in site.extra_args:
            key[f"extra:{e}"] = "attribute of self"
        rep.sample(
            {
                "site": site.ref,
                "decorator": site.kind,
                "store": f"self.{km.store_attr}[{site.cache_name!r}]",
                "key": key or "() -- result depends on self only",
                "extra_args": site.extra_args,
                "ignore_args": site.ignore_args,
                "factory": site.factory,
            }
        )
        rep.oblige(f"site-classified:{ck.display_name(site.func)}", ok_site, key)
        rule_ignore_args(rep, site)
    rep.extra["class_kinds"] = {c.ref: k for c, k in sorted(ka.kinds.items(), key=lambda kv: kv[0].ref) if c in ka.reached}

    rule_fallback_families(rep, ix, km, ka, facts)
    rule_hooks(rep, ix, km, ka, facts)

    # ---- captured addresses
    n_caps = rule_captures(rep, ix, km, ka, sites, facts)
    rep.floor("distinct (site, argument, attribute) address captures reached from cached sites", n_caps, FLOOR_CAPTURES)

    # ---- hand-written cache of the PDE class
    rule_prepare_cache(rep, ix, facts)

    # ---- state read by cached methods, shared containers, numeric keys
    rule_cached_state(rep, ix, km, sites, facts, ck.StateFacts(ix, facts))
    rule_shared_containers(rep, ix, facts)
    rule_numeric_hash(rep, ix, km, ka, facts, site_atoms)
    rule_cached_mutable_result(rep, ix, sites)
    rule_fresh_keys_and_state(rep, ix, km)
    rule_expression_evaluators_keyed_by_consts(rep, ix, sites)
    rule_cache_inventory(rep, ix, km)

    rep.assumptions += [
        "annotations describe the argument types (values smuggled through Any/**kwargs are listed as unclassified notes)",
        "public attributes of PDE / expression / boundary objects are not mutated between calls (documented caching policy)",
        "global configuration is fixed within a history ('default' backend name resolves to the same backend)",
        "objects hashed by identity stay alive as long as the cached result that was built from them",
    ]
    return rep

"""C15 -- field objects share or isolate memory as documented.

Alias typing over the syntax trees of ``pde/fields/{base,datafield_base,collection,
scalar,vectorial,tensorial}.py`` (never imported).  Values are classed FRESH / VIEW /
MAYBE / UNKNOWN along every structured path of the anchored methods (engine:
``pdelint/alias.py``); the effects of a path (attribute re-binding, subscript stores,
``out=`` keywords, in-place updates) are collected with the class of the object they
write into.  Rules are listed in ``check``; every exception to a rule is one named
construct with a reason (``PADDED_WRITERS``, ``OUT_RESULT_EXCEPTIONS``).
"""

from __future__ import annotations

import ast
import re

from ..alias import (
    FRESH,
    UNKNOWN,
    Classifier,
    Facts,
    Path,
    Val,
    Write,
    attribute_stores,
    bound_names,
    chain_str,
    enum_paths,
    expand,
    is_self_call,
    is_super_call,
    norm_attr,
    param_names,
    pick_def,
    stable_ref,
    thorough_selftest,
    writes_of,
)
from ..core import AnalysisError, Report
from ..index import ClassInfo, FuncInfo, get_index

F_BASE = "pde/fields/base.py"
F_DATA = "pde/fields/datafield_base.py"
F_COLL = "pde/fields/collection.py"
F_SCAL = "pde/fields/scalar.py"
F_VEC = "pde/fields/vectorial.py"
F_TENS = "pde/fields/tensorial.py"
G_BASE = "pde/grids/base.py"
FIELD_FILES = (F_BASE, F_DATA, F_COLL, F_SCAL, F_VEC, F_TENS)

PADDED = {"_data_full", "__data_full", "_data_flat"}  # handles of the padded array
OWNED = {"__data_full", "_data_valid"}  # slots only the `_data_full` setter may re-bind
INPLACE_DUNDERS = {
    "__iadd__", "__isub__", "__imul__", "__imatmul__", "__itruediv__", "__ifloordiv__", "__imod__",
    "__ipow__", "__ilshift__", "__irshift__", "__iand__", "__ixor__", "__ior__",
}  # fmt: skip
BINARY_DUNDERS = {
    "__add__", "__radd__", "__sub__", "__rsub__", "__mul__", "__rmul__", "__truediv__", "__rtruediv__",
    "__floordiv__", "__rfloordiv__", "__mod__", "__rmod__", "__pow__", "__rpow__", "__neg__", "__pos__",
    "__abs__", "__invert__", "__and__", "__or__", "__xor__",
}  # fmt: skip

# constructs that may write to the padded array (ghost cells included) or re-bind it -- one
# reason each; any other writer in the field modules violates C15.padded-writers
PADDED_WRITERS = {
    f"{F_BASE}::FieldBase.__init__": "adopts the array handed to the constructor (through the `_data_full` setter)",
    f"{F_BASE}::FieldBase._data_full[setter]": "the one re-binder of the padded array; scalar fill of the whole array",
    f"{F_BASE}::FieldBase._data_flat[setter]": "re-binds through the `_data_full` setter (flat layout == full layout)",
    f"{F_SCAL}::ScalarField._data_flat[setter]": "re-binds through the `_data_full` setter (drops the length-1 component axis)",
    f"{F_TENS}::Tensor2Field._data_flat[setter]": "re-binds through the `_data_full` setter (row-major (dim, dim, ...) view)",
    f"{F_BASE}::FieldBase.writeable[setter]": "toggles the writeable flag, no data is written",
    f"{F_COLL}::FieldCollection.__init__": "re-links the members to slices of the collection array",
    f"{F_COLL}::FieldCollection.from_data": "links freshly created members to slices of the given array (with_ghost_cells=True)",
}
# (method, callee) whose result for `out is None` is allocated outside the anchored files
OUT_RESULT_EXCEPTIONS = {
    (f"{F_BASE}::FieldBase.apply", "evaluate"): "result field is built by pde.tools.expressions.evaluate",
}


# ------------------------------------------------------------------------- helpers
def head(root: str) -> str:
    return re.split(r"[.\[(]", root, maxsplit=1)[0]


def segments(root: str) -> list[str]:
    return [s for s in re.split(r"[.\[\]()]+", root) if s]


def field_classes(ix, base: ClassInfo) -> list[ClassInfo]:
    out = []
    for rel in FIELD_FILES:
        for c in ix.module(rel).classes.values():
            if c.is_subclass_of(base):
                out.append(c)
    return out


def methods(classes: list[ClassInfo]):
    for c in classes:
        for name, defs in c.methods.items():
            for f in defs:
                if any(d.endswith("overload") for d in f.decorator_names):
                    continue
                yield c, name, f


def valid_cells_only(w: Write, owner: str = "self") -> bool:
    """does a write go through `<owner>....data` / `._data_valid` (valid cells, by value)
    and never through a handle of the padded array"""
    if w.kind in ("rebind", "aug-attr"):
        if w.attr != "data":
            return False
        if w.val.kind == FRESH:
            return True
        return w.val.shares and bool(w.val.roots) and all(head(r) == owner and not (set(segments(r)) & PADDED) for r in w.val.roots)
    if w.kind in ("store", "out", "aug-name", "mutcall"):
        if not w.val.shares or not w.val.roots:
            return False
        for r in w.val.roots:
            seg = segments(r)
            if head(r) != owner or set(seg) & PADDED or not ({"data", "_data_valid"} & set(seg)):
                return False
        return w.kind != "mutcall" or w.attr in ("fill",)
    return False


def returned_self(p: Path, selfname: str = "self") -> bool:
    v = p.value
    if isinstance(v, ast.Name):
        d = p.lookup(v.id, len(p.evs))
        return d is None and v.id == selfname
    return v is not None and is_self_call(v) == "_binary_operation_inplace"


def lin(e: ast.AST, var: str):
    """(a, b) with e == a*var + b for integer-linear expressions, else None"""
    if isinstance(e, ast.Constant) and isinstance(e.value, int) and not isinstance(e.value, bool):
        return (0, e.value)
    if isinstance(e, ast.Name):
        return (1, 0) if e.id == var else None
    if isinstance(e, ast.UnaryOp) and isinstance(e.op, ast.USub):
        r = lin(e.operand, var)
        return None if r is None else (-r[0], -r[1])
    if isinstance(e, ast.BinOp) and isinstance(e.op, (ast.Add, ast.Sub)):
        l, r = lin(e.left, var), lin(e.right, var)
        if l is None or r is None:
            return None
        s = 1 if isinstance(e.op, ast.Add) else -1
        return (l[0] + s * r[0], l[1] + s * r[1])
    return None


def single_return(f: FuncInfo) -> tuple[Path, ast.AST]:
    paths = [p for p in enum_paths(f) if p.exit == "return" and p.value is not None]
    if len(paths) != 1:
        raise AnalysisError(f"{f.ref}: expected a single returning path, found {len(paths)}")
    return paths[0], expand(paths[0].value, paths[0], len(paths[0].evs))


def per_axis_comprehension(e: ast.AST, seq_chain: str):
    """``tuple(<elt> for v in self.shape)`` / ``tuple([...])`` -> (elt, v) or None"""
    if isinstance(e, ast.Call) and isinstance(e.func, ast.Name) and e.func.id == "tuple" and len(e.args) == 1:
        e = e.args[0]
    if isinstance(e, (ast.GeneratorExp, ast.ListComp)) and len(e.generators) == 1:
        g = e.generators[0]
        if not g.ifs and isinstance(g.target, ast.Name) and chain_str(g.iter) == seq_chain:
            return e.elt, g.target.id
    return None


def as_slice(e: ast.AST):
    """(lower, upper, step) of `slice(a, b[, c])` / `a:b:c` (None for omitted / None parts)"""
    none = lambda x: None if x is None or (isinstance(x, ast.Constant) and x.value is None) else x  # noqa: E731
    if isinstance(e, ast.Slice):
        return none(e.lower), none(e.upper), none(e.step)
    if isinstance(e, ast.Call) and isinstance(e.func, ast.Name) and e.func.id == "slice" and not e.keywords and 1 <= len(e.args) <= 3:
        a = [none(x) for x in e.args]
        if len(a) == 1:
            return None, a[0], None
        return a[0], a[1], (a[2] if len(a) == 3 else None)
    return None


def is_full_slice(e: ast.AST) -> bool:
    s = as_slice(e)
    if s is not None:
        return s == (None, None, None)
    return isinstance(e, ast.Constant) and e.value is Ellipsis


# ------------------------------------------------------------------------- rules
def rule_owned_slots(rep: Report, ix, setter: FuncInfo) -> None:
    """C15.rebind-only-in-setter: `__data_full` and `_data_valid` are re-bound nowhere in the
    package except inside the `_data_full` setter"""
    inside = {id(n) for n in ast.walk(setter.node)}
    count = {a: 0 for a in OWNED}
    for m in ix.modules.values():
        tops = [f for f in m.functions.values() if f.parent is None]
        for f in tops:
            for node, kind in attribute_stores(f.node):
                a = norm_attr(node.attr)
                if a not in OWNED:
                    continue
                count[a] += 1
                if id(node) in inside:
                    continue
                # the enclosing (possibly nested) definition names the construct
                owner = f
                for g in m.functions.values():
                    if g is not f and any(n is node for n in ast.walk(g.node)) and len(g.qualname) > len(owner.qualname):
                        owner = g
                rep.violation(
                    "C15.rebind-only-in-setter",
                    f"{stable_ref(owner)}::{kind}:{a}",
                    f"`{chain_str(node)}` is re-bound outside the `_data_full` setter: `data` stops being a live view of the padded array "
                    "(ghost cells, collection links and component views silently detach)",
                    line=node.lineno,
                )
        # class bodies / module level
        for node in ast.walk(m.tree):
            if isinstance(node, ast.Attribute) and isinstance(node.ctx, (ast.Store, ast.Del)) and norm_attr(node.attr) in OWNED:
                if not any(any(n is node for n in ast.walk(f.node)) for f in tops):
                    rep.violation("C15.rebind-only-in-setter", f"{m.rel}::<module>::rebind:{norm_attr(node.attr)}", "owned slot re-bound at module/class level", line=node.lineno)
    for a, n in count.items():
        rep.floor(f"re-binding stores of `{a}` in the package", n, 1)
    rep.oblige("owned-slots:only-setter-rebinds", not any(x.rule == "C15.rebind-only-in-setter" for x in rep.findings), count)


def rule_setter(rep: Report, ix, clf: Classifier, setter: FuncInfo) -> None:
    """C15.setter-rederives-valid: every normally returning path of the `_data_full` setter
    ends with `_data_valid = __data_full[_idx_valid]` (a view) after the last re-binding of
    `__data_full`, and a re-binding adopts the given array (no copy)"""
    ref = stable_ref(setter)
    param = [p for p in param_names(setter.node) if p != "self"][0]
    n = n_rebind = 0
    for p in enum_paths(setter):
        if not p.normal:
            continue
        n += 1
        ws = writes_of(p, clf, setter)
        full = [w for w in ws if w.kind in ("rebind", "aug-attr") and w.chain == "self.__data_full"]
        valid = [w for w in ws if w.kind in ("rebind", "aug-attr") and w.chain == "self._data_valid"]
        ok = bool(valid) and all(w.idx < valid[-1].idx for w in full)
        if ok:
            v = expand(valid[-1].value, p, valid[-1].idx) if valid[-1].value is not None else None
            ok = isinstance(v, ast.Subscript) and chain_str(v.value) in ("self.__data_full", "self._data_full") and chain_str(v.slice) == "self._idx_valid"
            cls = clf.classify(valid[-1].value, p, valid[-1].idx, setter)
            ok = ok and cls.kind == "VIEW"
            if n == 1:
                rep.sample({"construct": ref, "_data_valid :=": ast.unparse(v) if v is not None else None, "classified": cls.show()})
        rep.oblige(f"setter:rederives-valid:path{n}", ok)
        if not ok:
            rep.violation(
                "C15.setter-rederives-valid",
                f"{ref}::_data_valid",
                "a path of the `_data_full` setter returns without re-deriving `_data_valid` as the view `self.__data_full[self._idx_valid]` "
                "after the last re-binding of the padded array: `data` no longer aliases the padded array",
                line=setter.node.lineno,
            )
        for w in full:
            n_rebind += 1
            cls = clf.classify(w.value, p, w.idx, setter) if w.value is not None else Val(UNKNOWN)
            ok2 = cls.shares and cls.rooted_at(param)
            rep.oblige(f"setter:adopts-array:path{n}", ok2, cls.show())
            if not ok2:
                rep.violation(
                    "C15.setter-adopts-array",
                    f"{ref}::__data_full",
                    f"the padded array is re-bound to {cls.show()} ({cls.why}) instead of the array that was assigned: collection links and component views are lost",
                    line=w.node.lineno,
                )
    rep.floor("normally returning paths of the `_data_full` setter", n, 2)
    rep.floor("re-bindings of `__data_full` on those paths", n_rebind, 1)


def rule_getters(rep: Report, ix, clf: Classifier) -> None:
    """C15.getter-is-view: `data`, `_data_full`, `_data_flat` hand out views, not copies"""
    wants = (("FieldBase.data", ("self._data_valid",)), ("FieldBase._data_full", ("self.__data_full",)), ("FieldBase._data_flat", ("self._data_full", "self.__data_full")))
    for qn, roots in wants:
        g = pick_def(ix, F_BASE, qn, "getter")
        rep.saw("functions", stable_ref(g))
        n = 0
        for p in enum_paths(g):
            if p.exit != "return" or p.value is None:
                continue
            n += 1
            v = clf.classify(p.value, p, len(p.evs), g)
            ok = v.shares and v.rooted_at(*roots)
            rep.oblige(f"getter:{qn}:path{n}", ok, v.show())
            if not ok:
                rep.violation("C15.getter-is-view", f"{stable_ref(g)}::result", f"`{qn}` returns {v.show()} ({v.why}); it must be a view of {' / '.join(roots)}", line=g.node.lineno)
        rep.floor(f"returning paths of {qn} getter", n, 1)


def rule_valid_index(rep: Report, ix) -> None:
    """C15.valid-excludes-ghost: the valid-cell index leaves out exactly one ghost cell per side
    and takes all components"""
    gi = pick_def(ix, G_BASE, "GridBase._idx_valid", "getter")
    gs = pick_def(ix, G_BASE, "GridBase._shape_full", "getter")
    fi = pick_def(ix, F_BASE, "FieldBase._idx_valid", "getter")
    for f in (gi, gs, fi):
        rep.saw("functions", stable_ref(f))
    _, e_idx = single_return(gi)
    _, e_full = single_return(gs)
    ok = False
    detail = {"grid._idx_valid": ast.unparse(e_idx), "grid._shape_full": ast.unparse(e_full)}
    a, b = per_axis_comprehension(e_idx, "self.shape"), per_axis_comprehension(e_full, "self.shape")
    if a and b:
        (elt, v), (felt, fv) = a, b
        full = lin(felt, fv)
        sl = as_slice(elt)
        if sl is not None and sl[0] is not None and sl[1] is not None:
            lo, hi = lin(sl[0], v), lin(sl[1], v)
            step_ok = sl[2] is None or (isinstance(sl[2], ast.Constant) and sl[2].value == 1)
            # full extent n+2: valid cells are 1..n, i.e. slice(1, n+1) or slice(1, -1)
            ok = step_ok and full == (1, 2) and lo == (0, 1) and hi in ((1, 1), (0, -1))
            detail.update(lo=lo, hi=hi, full=full)
    rep.oblige("valid-index:grid", ok, detail)
    rep.sample({"valid-cell index": detail})
    if not ok:
        rep.violation("C15.valid-excludes-ghost", f"{stable_ref(gi)}::slices", f"valid-cell slices do not select cells 1..n of the n+2 padded cells per axis: {detail}", line=gi.node.lineno)
    _, e_f = single_return(fi)
    okf = False
    if isinstance(e_f, ast.BinOp) and isinstance(e_f.op, ast.Add) and chain_str(e_f.right) == "self.grid._idx_valid":
        l = e_f.left
        if isinstance(l, ast.BinOp) and isinstance(l.op, ast.Mult):
            for t in (l.left, l.right):
                if isinstance(t, ast.Tuple) and len(t.elts) == 1 and is_full_slice(t.elts[0]):
                    okf = True
    elif isinstance(e_f, ast.Tuple) and len(e_f.elts) == 2 and is_full_slice(e_f.elts[0]) and isinstance(e_f.elts[1], ast.Starred) and chain_str(e_f.elts[1].value) == "self.grid._idx_valid":
        okf = True
    rep.oblige("valid-index:field", okf, ast.unparse(e_f))
    if not okf:
        rep.violation("C15.valid-excludes-ghost", f"{stable_ref(fi)}::slices", f"field valid index is `{ast.unparse(e_f)}`: not (all components) + grid._idx_valid", line=fi.node.lineno)


def rule_flat_setters(rep: Report, ix, clf: Classifier, classes) -> None:
    """C15.flat-setter-view: every `_data_flat` setter hands a *view* of the assigned array to
    the `_data_full` setter"""
    n = 0
    for c, name, f in methods(classes):
        if name != "_data_flat" or not any(d.endswith(".setter") for d in f.decorator_names):
            continue
        n += 1
        ref = stable_ref(f)
        rep.saw("functions", ref)
        param = [p for p in param_names(f.node) if p != "self"][0]
        k = 0
        for p in enum_paths(f):
            if not p.normal:
                continue
            k += 1
            ws = [w for w in writes_of(p, clf, f) if w.kind == "rebind" and w.chain == "self._data_full"]
            ok = len(ws) >= 1
            shown = []
            for w in ws:
                v = clf.classify(w.value, p, w.idx, f) if w.value is not None else Val(UNKNOWN)
                shown.append(v.show())
                ok = ok and v.shares and v.rooted_at(param)
            rep.oblige(f"flat-setter:{c.name}:path{k}", ok, shown)
            if not ok:
                rep.violation(
                    "C15.flat-setter-view",
                    f"{ref}::_data_full",
                    f"`{c.name}._data_flat = x` must re-bind the padded array to a view of `x`; found {shown or 'no re-binding'}: members linked through it do not alias the collection",
                    line=f.node.lineno,
                )
        rep.floor(f"normally returning paths of {c.name}._data_flat setter", k, 1)
    rep.floor("`_data_flat` setters", n, 3)


def rule_data_setter(rep: Report, ix, clf: Classifier) -> None:
    """C15.data-setter-value-store: `field.data = x` copies values into the valid cells"""
    f = pick_def(ix, F_BASE, "FieldBase.data", "setter")
    ref = stable_ref(f)
    rep.saw("functions", ref)
    n = 0
    for p in enum_paths(f):
        if not p.normal:
            continue
        ws = [w for w in writes_of(p, clf, f) if not w.local_only]
        good = [w for w in ws if w.kind == "store" and w.chain in ("self._data_valid",) and valid_cells_only(w)]
        n += 1
        bad = [w for w in ws if w not in good]
        ok = bool(good) and not bad
        rep.oblige(f"data-setter:path{n}", ok, [w.show() for w in ws])
        if not ok:
            rep.violation(
                "C15.data-setter-value-store",
                f"{ref}::store",
                f"assigning to `data` must store values into `self._data_valid[...]` and nothing else; found {[w.show() for w in ws] or 'no store'}",
                line=f.node.lineno,
            )
    rep.floor("normally returning paths of the `data` setter", n, 2)


def rule_inplace(rep: Report, ix, clf: Classifier, classes) -> None:
    """C15.inplace-writes-valid-only: in-place arithmetic and component/value setters write only
    through `self.data` / `_data_valid` (valid cells of this field), return self"""
    n_fam = n_writes = 0
    for c, name, f in methods(classes):
        inplace = name in INPLACE_DUNDERS or name == "_binary_operation_inplace"
        setter_like = name == "__setitem__" or (c.name == "DataFieldBase" and name == "insert")
        if not (inplace or setter_like):
            continue
        n_fam += 1
        ref = stable_ref(f)
        rep.saw("in-place family", ref)
        bad_seen = False
        for p in enum_paths(f):
            if not p.normal:
                continue
            for w in writes_of(p, clf, f):
                if w.local_only:
                    continue
                n_writes += 1
                if not valid_cells_only(w):
                    bad_seen = True
                    what = "the padded array (ghost cells included)" if any(set(segments(r)) & PADDED for r in w.val.roots | {w.chain}) else "something other than this field's valid cells"
                    rep.violation(
                        "C15.inplace-writes-valid-only",
                        f"{ref}::{w.kind}:{'+'.join(sorted(w.val.roots)) or w.chain}",
                        f"in-place operation writes to {what}: {w.show()}",
                        line=getattr(w.node, "lineno", None),
                    )
            if inplace and not returned_self(p):
                bad_seen = True
                rep.violation("C15.inplace-writes-valid-only", f"{ref}::result", f"in-place operation returns `{ast.unparse(p.value) if p.value is not None else None}` instead of self", line=f.node.lineno)
        rep.oblige(f"inplace:{ref}", not bad_seen)
    rep.floor("in-place / setter methods of field classes", n_fam, 10)
    rep.floor("non-local writes performed by them", n_writes, 8)


def rule_binary(rep: Report, ix, clf: Classifier, classes, base: ClassInfo) -> None:
    """C15.binary-op-fresh-result: `_binary_operation` writes into a fresh `.copy()` and never
    into an operand; the arithmetic dunders only delegate; `_unary_operation` builds a new field"""
    f = ix.func(F_BASE, "FieldBase._binary_operation")
    ref = stable_ref(f)
    rep.saw("functions", ref)
    operands = set(param_names(f.node)[:2])
    n = 0
    for p in enum_paths(f):
        if p.exit == "end":
            rep.violation("C15.binary-op-fresh-result", f"{ref}::result", "a path ends without returning a result", line=f.node.lineno)
        if p.exit != "return":
            continue
        n += 1
        end = len(p.evs)
        v = clf.classify(p.value, p, end, f) if p.value is not None else Val(UNKNOWN, why="bare return")
        src = expand(p.value, p, end) if p.value is not None else None
        from_copy = isinstance(src, ast.Call) and isinstance(src.func, ast.Attribute) and src.func.attr == "copy" and chain_str(src.func.value) in operands
        if n == 1:
            rep.sample({"construct": ref, "result": ast.unparse(src) if src is not None else None, "classified": v.show()})
        ok = v.fresh and from_copy
        if not ok:
            rep.violation(
                "C15.binary-op-fresh-result",
                f"{ref}::result",
                f"the result of a binary operation is `{ast.unparse(src) if src is not None else None}` ({v.show()}; {v.why}), not a fresh copy of an operand",
                line=p.evs[-1].node.lineno,
            )
        ws = writes_of(p, clf, f)
        into_result = [w for w in ws if w.local_only and w.kind == "out"]
        for w in ws:
            if not w.local_only:
                ok = False
                rep.violation(
                    "C15.binary-op-fresh-result",
                    f"{ref}::operand-write",
                    f"a binary operation writes into an operand: {w.show()} (operands must be left unchanged)",
                    line=getattr(w.node, "lineno", None),
                )
        if not into_result:
            ok = False
            rep.violation("C15.binary-op-fresh-result", f"{ref}::no-store", "a returning path never stores the computed values into the result (`out=result.data`)", line=f.node.lineno)
        rep.oblige(f"binary:path{n}", ok, v.show())
    rep.floor("returning paths of _binary_operation", n, 4)

    nd = 0
    for c, name, g in methods(classes):
        if name not in BINARY_DUNDERS:
            continue
        nd += 1
        gref = stable_ref(g)
        rep.saw("arithmetic dunders", gref)
        ok = True
        for p in enum_paths(g):
            if not p.normal:
                continue
            for w in writes_of(p, clf, g):
                if not w.local_only:
                    ok = False
                    rep.violation("C15.binary-op-fresh-result", f"{gref}::operand-write", f"arithmetic operator writes into an operand: {w.show()}", line=getattr(w.node, "lineno", None))
            deleg = p.value is not None and is_self_call(p.value) in ("_binary_operation", "_unary_operation")
            if not deleg:
                v = clf.classify(p.value, p, len(p.evs), g) if p.value is not None else Val(UNKNOWN)
                if not v.fresh:
                    ok = False
                    rep.violation("C15.binary-op-fresh-result", f"{gref}::result", f"arithmetic operator returns {v.show()} ({v.why}) instead of delegating to _binary_operation/_unary_operation", line=g.node.lineno)
        rep.oblige(f"dunder:{gref}", ok)
    rep.floor("arithmetic dunder methods", nd, 8)

    # unary operations: a new field through the (copying) constructor
    owners = []
    for c, name, g in methods(classes):
        if name != "_unary_operation":
            continue
        owners.append(c.name)
        gref = stable_ref(g)
        rep.saw("functions", gref)
        for p in enum_paths(g):
            if p.exit != "return":
                continue
            v = clf.classify(p.value, p, len(p.evs), g) if p.value is not None else Val(UNKNOWN)
            rep.oblige(f"unary:{c.name}", v.fresh, v.show())
            if not v.fresh:
                rep.violation("C15.binary-op-fresh-result", f"{gref}::result", f"unary operation returns {v.show()} ({v.why}), not a newly allocated field", line=g.node.lineno)
            for w in writes_of(p, clf, g):
                if not w.local_only:
                    rep.violation("C15.binary-op-fresh-result", f"{gref}::operand-write", f"unary operation writes into its operand: {w.show()}", line=getattr(w.node, "lineno", None))
    if "FieldBase" not in owners:
        raise AnalysisError("anchor vanished: FieldBase._unary_operation")


def rule_constructor(rep: Report, ix, clf: Classifier) -> None:
    """C15.constructor-isolation / C15.constructor-adopts: DataFieldBase.__init__ hands a FRESH
    array to FieldBase.__init__ on every path except the `with_ghost_cells` one, where it must
    adopt the given array (component views and collection links rely on it)"""
    f = ix.func(F_DATA, "DataFieldBase.__init__")
    ref = stable_ref(f)
    rep.saw("functions", ref)
    names = param_names(f.node)
    if "with_ghost_cells" not in names or "data" not in names:
        raise AnalysisError(f"{ref}: parameters `data`/`with_ghost_cells` vanished")
    n = n_adopt = 0
    rows = []
    for p in enum_paths(f):
        if not p.normal:
            continue
        n += 1
        adopt = p.decided(lambda t: isinstance(t, ast.Name) and t.id == "with_ghost_cells") is True
        # the request to adopt must be the caller's: a path that re-binds `with_ghost_cells` itself, or on which `data`
        # was found to be a field object (a field given as data is always copied), is not an adopting path
        rebound = any(isinstance(st, ast.Assign) and any("with_ghost_cells" in bound_names(t) for t in st.targets) for _, st in p.stmts())
        is_field = p.decided(lambda t: isinstance(t, ast.Call) and chain_str(t.func) == "isinstance" and len(t.args) == 2 and isinstance(t.args[0], ast.Name) and t.args[0].id == "data" and chain_str(t.args[1]) in ("self.__class__", "DataFieldBase", "FieldBase", "type(self)")) is True
        if adopt and (rebound or is_field):
            adopt = False
        calls = [(i, st.value) for i, st in p.stmts() if isinstance(st, ast.Expr) and is_super_call(st.value) == "__init__"]
        if len(calls) != 1:
            rep.violation("C15.constructor-isolation", f"{ref}::super-init", f"a path calls FieldBase.__init__ {len(calls)} times", line=f.node.lineno)
            continue
        i, call = calls[0]
        arg = next((k.value for k in call.keywords if k.arg == "data"), call.args[1] if len(call.args) > 1 else None)
        if arg is None:
            raise AnalysisError(f"{ref}: super().__init__ call without data argument")
        v = clf.classify(arg, p, i, f)
        src = expand(arg, p, i)
        rows.append({"with_ghost_cells": adopt, "array": ast.unparse(src), "classified": v.show()})
        if v.kind == UNKNOWN:
            raise AnalysisError(f"{ref}: cannot classify `{ast.unparse(src)}`: {v.why}")
        if adopt:
            n_adopt += 1
            ok = v.shares and v.rooted_at("data")
            rep.oblige(f"ctor:adopts:path{n}", ok, v.show())
            if not ok:
                rep.violation(
                    "C15.constructor-adopts",
                    f"{ref}::with_ghost_cells",
                    f"with `with_ghost_cells=True` the constructor must adopt the given padded array; it uses {v.show()} ({v.why}): component views "
                    "(`vector[i]`, `tensor[i, j]`) no longer alias their parent",
                    line=call.lineno,
                )
        else:
            ok = v.fresh
            rep.oblige(f"ctor:fresh:path{n}", ok, v.show())
            if not ok:
                rep.violation(
                    "C15.constructor-isolation",
                    f"{ref}::array:{'+'.join(sorted(head(r) + ''.join('.' + s for s in segments(r)[1:]) for r in v.roots)) or 'unknown'}",
                    f"a field constructed without `with_ghost_cells` keeps {v.show()} ({v.why}) as its padded array: the new field shares memory with its source",
                    line=call.lineno,
                )
    uniq = []
    for r in rows:
        if r not in uniq:
            uniq.append(r)
    rep.sample({"construct": ref, "array handed to FieldBase.__init__ per path": uniq})
    rep.floor("normally returning paths of DataFieldBase.__init__", n, 8)
    rep.floor("of which adopt the array (with_ghost_cells)", n_adopt, 1)


def rule_copy(rep: Report, ix, clf: Classifier) -> None:
    """C15.copy-fresh: DataFieldBase.copy returns a field over a FRESH copy of the padded array"""
    f = ix.func(F_DATA, "DataFieldBase.copy")
    ref = stable_ref(f)
    rep.saw("functions", ref)
    n = 0
    for p in enum_paths(f):
        if p.exit != "return" or p.value is None:
            continue
        n += 1
        v = clf.classify(p.value, p, len(p.evs), f)
        src = expand(p.value, p, len(p.evs))
        if n == 1:
            rep.sample({"construct": ref, "returns": ast.unparse(src), "classified": v.show(), "why": v.why})
        if v.kind == UNKNOWN:
            raise AnalysisError(f"{ref}: cannot classify `{ast.unparse(src)}`: {v.why}")
        rep.oblige(f"copy:path{n}", v.fresh, v.show())
        if not v.fresh:
            rep.violation("C15.copy-fresh", f"{ref}::array", f"copy() builds the new field from {v.show()} ({v.why}): the copy aliases its source", line=p.evs[-1].node.lineno)
    rep.floor("returning paths of DataFieldBase.copy", n, 1)


def rule_collection_copies(rep: Report, ix, clf: Classifier, coll: ClassInfo) -> None:
    """C15.collection-copy-isolated: copy(), slicing and append() build the new collection from
    copied members (copy_fields=True, or members that are fresh `.copy()`s)"""
    init = ix.func(F_COLL, "FieldCollection.__init__")
    sites = 0
    for name in ("copy", "__getitem__", "append"):
        f = pick_def(ix, F_COLL, f"FieldCollection.{name}", "plain")
        ref = stable_ref(f)
        rep.saw("functions", ref)
        k = 0
        for p in enum_paths(f):
            if p.exit != "return" or p.value is None:
                continue
            end = len(p.evs)
            orig, at = p.value, end
            while isinstance(orig, ast.Name):
                d = p.lookup(orig.id, at)
                if d is None or d.kind != "assign" or d.value is None:
                    break
                orig, at = d.value, d.idx
            if not isinstance(orig, ast.Call) or clf.is_field_class_expr(orig.func, p, at, f) is None:
                continue  # int / str index: the member itself is handed out (documented sharing)
            k += 1
            members = next((kw.value for kw in orig.keywords if kw.arg == "fields"), orig.args[0] if orig.args and not isinstance(orig.args[0], ast.Starred) else None)
            cf = next((kw.value for kw in orig.keywords if kw.arg == "copy_fields"), None)
            cfc = clf.const_of(cf, p, at, {}, default=False)
            mv = clf.classify(members, p, at, f) if members is not None else Val(UNKNOWN, why="no members argument")
            elem = mv.elem if mv.is_list else None
            ok = cfc is True or (elem is not None and elem.fresh)
            if k == 1:
                rep.sample({"construct": ref, "members": ast.unparse(members) if members is not None else None, "copy_fields": cfc if cfc in (True, False) else "?", "members classified": (elem or mv).show()})
            rep.oblige(f"collection-copy:{name}:path{k}", ok)
            if not ok:
                rep.violation(
                    "C15.collection-copy-isolated",
                    f"{ref}::members",
                    f"`{name}` builds the new collection from members classified {(elem or mv).show()} with copy_fields={cfc if cfc in (True, False) else '<non-constant>'}: "
                    "the constructor re-links those very field objects to the new collection, so the result aliases (and detaches) the source",
                    line=orig.lineno,
                )
        rep.floor(f"collection-building return paths of FieldCollection.{name}", k, 1)
        sites += 1
    rep.floor("collection copy sites", sites, 3)


def rule_collection_init(rep: Report, ix, clf: Classifier) -> None:
    """C15.collection-relink / C15.collection-layout: FieldCollection.__init__ builds a FRESH
    array from the members' flat data in field order, records cumulative slices, and on every
    normally returning path re-links every member to `self._data_full[self._slices[i]]`"""
    f = ix.func(F_COLL, "FieldCollection.__init__")
    ref = stable_ref(f)
    rep.saw("functions", ref)
    MEMBERS = ("self.fields", "self._fields")

    # the loops that re-link / that record slices, found by what they do (not where they are)
    relink_loops, slice_loops = [], []
    parents = {}
    for n in ast.walk(f.node):
        for ch in ast.iter_child_nodes(n):
            parents[id(ch)] = n
    for n in ast.walk(f.node):
        if isinstance(n, ast.For):
            for s in ast.walk(n):
                if isinstance(s, ast.Assign) and any(isinstance(t, ast.Attribute) and t.attr == "_data_flat" for t in s.targets):
                    relink_loops.append(n)
                    break
            for s in ast.walk(n):
                if isinstance(s, ast.Call) and isinstance(s.func, ast.Attribute) and s.func.attr == "append" and chain_str(s.func.value) == "self._slices":
                    slice_loops.append(n)
                    break
    if len(relink_loops) != 1 or len(slice_loops) != 1:
        raise AnalysisError(f"{ref}: expected one re-link loop and one slice-recording loop, found {len(relink_loops)}/{len(slice_loops)}")
    relink, slicing = relink_loops[0], slice_loops[0]

    def guards(node):
        out = []
        cur = node
        while id(cur) in parents:
            par = parents[id(cur)]
            if isinstance(par, (ast.If, ast.While)) :
                out.append(par.test)
            cur = par
        return out

    n = n_relinked = 0
    skipped: dict[str, list] = {}
    bypassed: dict[str, bool] = {}
    layout_ok = relink_ok = fresh_ok = None
    for p in enum_paths(f):
        if not p.normal:
            continue
        n += 1
        if not p.passes(relink):
            names = sorted({x.id for g in guards(relink) for x in ast.walk(g) if isinstance(x, ast.Name)})
            role = "relink-guarded-by:" + ("+".join(names) or "condition")
            how = [f"{ast.unparse(t)} is {tr}" for t, tr in p.decisions() if isinstance(t, ast.expr) and any(t is g for g in guards(relink))]
            skipped.setdefault(role, how)
        else:
            n_relinked += 1
        # array handed to FieldBase.__init__
        for i, st in p.stmts():
            if isinstance(st, ast.Expr) and is_super_call(st.value) == "__init__":
                call = st.value
                arg = next((k.value for k in call.keywords if k.arg == "data"), call.args[1] if len(call.args) > 1 else None)
                v = clf.classify(arg, p, i, f) if arg is not None else Val(UNKNOWN)
                fresh_ok = (fresh_ok is not False) and v.fresh
                if not v.fresh:
                    rep.violation(
                        "C15.collection-layout",
                        f"{ref}::array",
                        f"the collection array is {v.show()} ({v.why}); it must be newly allocated because the members are re-linked to it",
                        line=call.lineno,
                    )
        # paths that run both loop bodies once: check layout and link expressions
        ws = writes_of(p, clf, f)
        rl = [w for w in ws if w.kind == "rebind" and w.attr == "_data_flat"]
        sl = [w for w in ws if w.kind == "mutcall" and w.attr == "append" and w.chain == "self._slices"]
        # within one iteration the store lies on every non-raising path of the iteration: no
        # `continue` / `break` / conditional may bypass it (a guard that raises is fine)
        for loop, stores, rule, what in ((relink, rl, "C15.collection-relink", "link"), (slicing, sl, "C15.collection-layout", "slice")):
            iterated = any(e.kind == "bind" and e.node is loop.target for e in p.evs)
            if iterated and not any(loop in p.evs[w.idx].loops for w in stores):
                inside = [(e.node, e.truth) for e in p.evs if e.kind == "decide" and isinstance(e.node, ast.expr) and loop in e.loops]
                # the construct is named after the last decision taken inside the iteration (the one that diverts)
                names = sorted({x.id for t, _ in inside[-1:] for x in ast.walk(t) if isinstance(x, ast.Name)})
                key = f"{ref}::{what}-bypassed-by:" + ("+".join(names) or "unconditional")
                if key not in bypassed:
                    bypassed[key] = True
                    how = " and ".join(f"`{ast.unparse(t)}` is {tr}" for t, tr in inside) or "unconditionally"
                    consequence = (
                        "that member keeps its own array: a write through the collection is not seen through the member and vice versa"
                        if what == "link"
                        else "the member gets no slice of the collection array: the layout is no longer the fields in order"
                    )
                    rep.violation(
                        rule,
                        key,
                        f"an iteration of the {'re-link' if what == 'link' else 'slice-recording'} loop completes without the {what} store ({how}): {consequence}",
                        line=loop.lineno,
                    )
        if sl and layout_ok is not False:
            w = sl[0]
            layout_ok = _check_slice_bookkeeping(p, w, slicing, MEMBERS)
            if layout_ok is not True:
                rep.violation("C15.collection-layout", f"{ref}::slices", f"slice bookkeeping is not cumulative in field order: {layout_ok}", line=w.node.lineno)
                layout_ok = False
        if rl and relink_ok is not False:
            w = rl[0]
            relink_ok = _check_relink(p, w, relink, clf, f, MEMBERS)
            if relink_ok is not True:
                rep.violation("C15.collection-relink", f"{ref}::link", f"members are not re-linked to their slice of the collection array: {relink_ok}", line=w.node.lineno)
                relink_ok = False
    for role, how in skipped.items():
        rep.violation(
            "C15.collection-relink",
            f"{ref}::{role}",
            "a normally returning path of FieldCollection.__init__ never re-links the members to the collection array "
            f"(taken when {' and '.join(how) or 'the guard fails'}): the collection's `data` and the `data` of its member fields are separate arrays, "
            "a write through one is not seen through the other",
            line=relink.lineno,
            guard=how,
        )
    rep.oblige("collection:relinked-on-every-path", not skipped, {"paths": n, "relinked": n_relinked})
    rep.oblige("collection:stores-on-every-iteration-path", not bypassed, sorted(bypassed))
    rep.oblige("collection:layout-cumulative-in-field-order", layout_ok is True)
    rep.oblige("collection:link-is-view-of-own-slice", relink_ok is True)
    rep.oblige("collection:array-fresh", fresh_ok is True)
    if layout_ok is None or relink_ok is None or fresh_ok is None:
        raise AnalysisError(f"{ref}: no path exercises the slice loop / re-link loop / FieldBase.__init__ call")
    rep.floor("normally returning paths of FieldCollection.__init__", n, 8)
    rep.floor("of which re-link the members", n_relinked, 2)
    # runtime verification of the link (recorded, not required)
    verifies = any(isinstance(c, ast.Call) and (chain_str(c.func) or "").endswith("may_share_memory") for c in ast.walk(relink)) or any(
        isinstance(c, ast.Call) and (chain_str(c.func) or "").endswith("shares_memory") for c in ast.walk(relink)
    )
    rep.note(f"FieldCollection.__init__ re-link loop verifies sharing at run time: {verifies}")


def _loop_over_members(p: Path, loop: ast.For, members) -> tuple[str | None, str | None]:
    """(counter name, element name) of `for i, x in enumerate(<members>)` / (None, x) of
    `for x in <members>`"""
    it, tgt = loop.iter, loop.target
    if isinstance(it, ast.Call) and isinstance(it.func, ast.Name) and it.func.id == "enumerate" and len(it.args) == 1 and chain_str(it.args[0]) in members:
        if isinstance(tgt, ast.Tuple) and len(tgt.elts) == 2 and all(isinstance(t, ast.Name) for t in tgt.elts):
            return tgt.elts[0].id, tgt.elts[1].id
    if chain_str(it) in members and isinstance(tgt, ast.Name):
        return None, tgt.id
    return None, None


def _check_slice_bookkeeping(p: Path, w: Write, loop: ast.For, members):
    _, elem = _loop_over_members(p, loop, members)
    if elem is None:
        return f"slices are not recorded in a loop over {members[0]}"
    call = w.node
    raw = call.args[0] if call.args else None
    eval_at = w.idx
    if isinstance(raw, ast.Name):  # `sl = slice(..)` hoisted into a local
        d = p.lookup(raw.id, w.idx)
        if d is not None and d.kind == "assign" and d.value is not None:
            raw, eval_at = d.value, d.idx
    sl = as_slice(raw) if raw is not None else None
    if sl is None or sl[0] is None or sl[1] is None or sl[2] is not None:
        return f"recorded slice is `{ast.unparse(call.args[0]) if call.args else None}`"

    def len_of(e):
        if isinstance(e, ast.Call) and isinstance(e.func, ast.Name) and e.func.id == "len" and len(e.args) == 1:
            return chain_str(e.args[0])
        return None

    # the lower bound is a local evaluated before, the upper bound is evaluated after the
    # member's rows are added to the accumulator
    lower_at = None
    lower = sl[0]
    if isinstance(lower, ast.Name):
        d = p.lookup(lower.id, eval_at)
        if d is not None and d.kind == "assign" and d.value is not None:
            lower_at, lower = d.idx, d.value
    upper_at = eval_at
    upper = sl[1]
    if isinstance(upper, ast.Name):
        d = p.lookup(upper.id, eval_at)
        if d is not None and d.kind == "assign" and d.value is not None:
            upper_at, upper = d.idx, d.value
    acc = len_of(upper)
    if acc is None or len_of(lower) != acc:
        return f"slice bounds `{ast.unparse(lower)}`:`{ast.unparse(upper)}` are not (len(acc) before, len(acc) after) of one accumulator"
    ext = [i for i, st in p.stmts() if isinstance(st, ast.Expr) and isinstance(st.value, ast.Call) and isinstance(st.value.func, ast.Attribute) and st.value.func.attr in ("extend", "append") and chain_str(st.value.func.value) == acc]
    ext = [i for i in ext if loop in p.evs[i].loops]
    if lower_at is None or len(ext) != 1 or not (lower_at < ext[0] < upper_at):
        return "the start of the slice is not taken before, or its end not after, the member's rows are added to the accumulator"
    added = p.evs[ext[0]].node.value
    src = expand(added.args[0], p, ext[0]) if added.args else None
    if added.func.attr != "extend" or chain_str(src) != f"{elem}._data_flat":
        return f"rows added are `{ast.unparse(src) if src is not None else None}`, expected the member's `_data_flat`"
    return True


def _check_relink(p: Path, w: Write, loop: ast.For, clf: Classifier, f: FuncInfo, members):
    counter, elem = _loop_over_members(p, loop, members)
    if counter is None or elem is None:
        return f"re-link loop is not `for i, field in enumerate({members[0]})`"
    tgt = w.node
    owner = clf.classify(tgt.value, p, w.idx, f)
    if not (owner.shares and owner.roots and all(r in {m + "[]" for m in members} for r in owner.roots)):
        return f"re-link assigns `{chain_str(tgt)}` of {owner.show()}, not of the enumerated member"
    val = expand(w.value, p, w.idx) if w.value is not None else None
    ok = (
        isinstance(val, ast.Subscript)
        and chain_str(val.value) in ("self._data_full", "self.__data_full")
        and isinstance(val.slice, ast.Subscript)
        and chain_str(val.slice.value) == "self._slices"
        and isinstance(val.slice.slice, ast.Name)
        and val.slice.slice.id == counter
    )
    if not ok:
        return f"member is linked to `{ast.unparse(val) if val is not None else None}`, expected `self._data_full[self._slices[{counter}]]`"
    v = clf.classify(w.value, p, w.idx, f)
    if v.kind != "VIEW":
        return f"linked value is {v.show()} ({v.why})"
    return True


def rule_component_views(rep: Report, ix, clf: Classifier) -> None:
    """C15.component-view: vector[i] / tensor[i, j] are fields over views of the parent's padded array"""
    n = 0
    for rel, qn in ((F_VEC, "VectorField.__getitem__"), (F_TENS, "Tensor2Field.__getitem__")):
        f = pick_def(ix, rel, qn, "plain")
        ref = stable_ref(f)
        rep.saw("functions", ref)
        k = 0
        for p in enum_paths(f):
            if p.exit != "return" or p.value is None:
                continue
            k += 1
            v = clf.classify(p.value, p, len(p.evs), f)
            ok = v.kind == "VIEW" and v.rooted_at("self._data_full", "self.__data_full")
            if k == 1:
                rep.sample({"construct": ref, "returns": ast.unparse(expand(p.value, p, len(p.evs))), "classified": v.show()})
            rep.oblige(f"component-view:{qn}:path{k}", ok, v.show())
            if not ok:
                rep.violation(
                    "C15.component-view",
                    f"{ref}::result",
                    f"component access returns {v.show()} ({v.why}); it must be a field over a view of `self._data_full[...]` (with_ghost_cells=True)",
                    line=p.evs[-1].node.lineno,
                )
            # ... for every dtype: without `dtype` the constructor normalises the data with number_array(data, dtype=None),
            # which converts everything that is not double / complex double -- a converted array is a detached copy
            call = expand(p.value, p, len(p.evs))
            if isinstance(call, ast.Call):
                dt = next((kw.value for kw in call.keywords if kw.arg == "dtype"), None)
                ok_dt = dt is not None and ast.unparse(dt) in ("self.dtype", "self._data_full.dtype", "self.data.dtype", "self.__data_full.dtype")
                rep.oblige(f"component-view:{qn}:path{k}: the component field is built with the parent's dtype", ok_dt, ast.unparse(dt) if dt is not None else "dtype omitted")
                if not ok_dt:
                    rep.violation(
                        "C15.component-view",
                        f"{ref}::dtype",
                        f"component access builds the field with dtype `{ast.unparse(dt) if dt is not None else 'None (omitted)'}`: the constructor then normalises the data to double precision, so for float32 / complex64 / "
                        "integer fields the component is a converted *copy* and a write through it is not seen by the parent (the parent's dtype must be passed)",
                        line=p.evs[-1].node.lineno,
                    )
        rep.floor(f"returning paths of {qn}", k, 1)
        n += 1
    rep.floor("component access methods", n, 2)


def rule_out_protocol(rep: Report, ix, clf: Classifier, classes) -> None:
    """C15.out-protocol: methods with an `out` parameter allocate a new field when `out is None`
    and write only into `out` (never into self / other operands)"""
    n = n_alloc = 0
    for c, name, f in methods(classes):
        if "out" not in param_names(f.node) or name == "__array_ufunc__":
            continue
        n += 1
        ref = stable_ref(f)
        rep.saw("out-parameter methods", ref)
        okm = True
        for p in enum_paths(f):
            if not p.normal:
                continue
            is_none = p.decided(
                lambda t: isinstance(t, ast.Compare) and chain_str(t.left) == "out" and len(t.ops) == 1 and isinstance(t.ops[0], ast.Is) and isinstance(t.comparators[0], ast.Constant) and t.comparators[0].value is None
            )
            end = len(p.evs)
            if is_none is True and p.value is not None:
                v = clf.classify(p.value, p, end, f)
                if v.kind == UNKNOWN:
                    callee = re.search(r"unresolved call ([\w.]+)\(", v.why)
                    key = (f"{f.module.rel}::{f.qualname}", callee.group(1) if callee else "?")
                    if key in OUT_RESULT_EXCEPTIONS:
                        msg = f"{ref}: result for `out is None` comes from {key[1]}(): {OUT_RESULT_EXCEPTIONS[key]} (not analysed)"
                        if msg not in rep.notes:
                            rep.note(msg)
                    else:
                        raise AnalysisError(f"{ref}: cannot classify the result for `out is None`: {v.why}")
                else:
                    n_alloc += 1
                    if not v.fresh:
                        okm = False
                        rep.violation(
                            "C15.out-protocol",
                            f"{ref}::result",
                            f"with `out=None` the method returns {v.show()} ({v.why}) instead of a newly allocated field: the result aliases an operand",
                            line=p.evs[-1].node.lineno if p.evs else f.node.lineno,
                        )
            for w in writes_of(p, clf, f):
                if w.local_only:
                    continue
                if w.val.shares and w.val.roots and all(head(r) == "out" for r in w.val.roots):
                    continue  # writing into the caller's `out` is the purpose of the parameter
                if w.kind in ("rebind", "aug-attr") and w.chain.startswith("out."):
                    continue
                if w.val.kind == UNKNOWN and is_none is True:
                    continue  # result object of an excepted callee (see OUT_RESULT_EXCEPTIONS)
                okm = False
                rep.violation(
                    "C15.out-protocol",
                    f"{ref}::operand-write",
                    f"writes into something other than `out`: {w.show()} (operands must be left unchanged)",
                    line=getattr(w.node, "lineno", None),
                )
        rep.oblige(f"out-protocol:{ref}", okm)
    rep.floor("field methods with an `out` parameter", n, 7)
    rep.floor("paths allocating the result for `out is None`", n_alloc, 7)


def rule_inplace_flag(rep: Report, ix, clf: Classifier, classes) -> None:
    """C15.inplace-flag: methods with an `inplace` parameter leave self untouched when it is False"""
    n = nw = 0
    for c, name, f in methods(classes):
        if "inplace" not in param_names(f.node):
            continue
        n += 1
        ref = stable_ref(f)
        rep.saw("inplace-flag methods", ref)
        facts = Facts()
        facts.set_eq("inplace", False)
        ok = True
        for p in enum_paths(f, facts):
            if not p.normal:
                continue
            for w in writes_of(p, clf, f):
                nw += 1
                if w.local_only:
                    continue
                ok = False
                rep.violation("C15.inplace-flag", f"{ref}::operand-write", f"with inplace=False the method writes into {w.show()}", line=getattr(w.node, "lineno", None))
        rep.oblige(f"inplace-flag:{ref}", ok)
    rep.floor("field methods with an `inplace` parameter", n, 3)
    rep.floor("writes analysed under inplace=False", nw, 3)


def rule_padded_writers(rep: Report, ix, classes) -> None:
    """C15.padded-writers: nothing in the field modules stores through a handle of the padded
    array except the enumerated constructs"""
    seen = set()
    n = 0
    for rel in FIELD_FILES:
        m = ix.module(rel)
        for f in m.functions.values():
            if f.parent is not None:
                continue
            sites = []
            for node in ast.walk(f.node):
                tgts = []
                if isinstance(node, ast.Assign):
                    tgts = list(node.targets)
                elif isinstance(node, (ast.AugAssign, ast.AnnAssign)):
                    tgts = [node.target]
                elif isinstance(node, ast.Delete):
                    tgts = list(node.targets)
                elif isinstance(node, ast.Call):
                    for k in node.keywords:
                        if k.arg in ("out", "output"):
                            ch = chain_str(k.value)
                            if ch and set(segments(ch)) & PADDED:
                                sites.append((k.value, f"out={ch}"))
                flat = []
                for t in tgts:
                    flat.extend(t.elts if isinstance(t, (ast.Tuple, ast.List)) else [t])
                for t in flat:
                    if isinstance(t, (ast.Attribute, ast.Subscript)):
                        ch = chain_str(t)
                        if ch and set(segments(ch)) & PADDED:
                            sites.append((t, ch))
            for node, ch in sites:
                n += 1
                ref = stable_ref(f)
                seen.add(ref)
                if ref not in PADDED_WRITERS:
                    rep.violation(
                        "C15.padded-writers",
                        f"{ref}::{re.sub(r'^[A-Za-z_][A-Za-z0-9_]*', 'x', ch) if not ch.startswith(('self', 'out=self')) else ch}",
                        f"`{ch}` is written here; only the enumerated constructs may store through a handle of the padded array (ghost cells, links): {sorted(PADDED_WRITERS)}",
                        line=node.lineno,
                    )
    for ref in seen & set(PADDED_WRITERS):
        rep.saw("padded-array writers (allowed)", f"{ref} -- {PADDED_WRITERS[ref]}")
    rep.oblige("padded-writers:only-enumerated", not any(x.rule == "C15.padded-writers" for x in rep.findings), sorted(seen))
    rep.floor("stores through a handle of the padded array in the field modules", n, 8)


# ------------------------------------------------------------------------- entry

def rule_identity_check_after_unpacking(rep: Report, ix) -> None:
    """FieldCollection.__init__ links every member to its own slice; the same field object given twice cannot be linked
    twice, so the constructor switches to copying when `len(fields) != len({id(f) for f in fields})`.  That test must look
    at the final list of field objects: if it runs before a mapping / collection argument is unpacked it counts keys, a field
    given under two keys is linked twice (both names view one row, the other row is orphaned)."""
    f = ix.func(F_COLL, "FieldCollection.__init__")
    ref = stable_ref(f)
    tests = []
    for n in ast.walk(f.node):
        if isinstance(n, ast.Compare) and any(isinstance(x, ast.Call) and isinstance(x.func, ast.Name) and x.func.id == "id" for x in ast.walk(n)):
            tests.append(n)
    if len(tests) != 1:
        raise AnalysisError(f"{ref}: expected exactly one identity test on the fields, found {len(tests)}")
    t = tests[0]
    seq = next((x.generators[0].iter for x in ast.walk(t) if isinstance(x, (ast.SetComp, ast.GeneratorExp, ast.ListComp))), None)
    if not isinstance(seq, ast.Name):
        raise AnalysisError(f"{ref}: identity test does not iterate a plain name")
    later = [st for st in ast.walk(f.node) if isinstance(st, ast.Assign) and any(isinstance(x, ast.Name) and x.id == seq.id for tt in st.targets for x in ast.walk(tt)) and st.lineno > t.lineno]
    rep.oblige("FieldCollection.__init__: the identity test sees the unpacked list of fields", not later, [ast.unparse(st)[:60] for st in later])
    if later:
        rep.violation(
            "C15.collection-relink",
            f"{ref}::identity-test-before-unpacking",
            f"the identical-fields test `{ast.unparse(t)[:70]}` runs before `{ast.unparse(later[0])[:60]}` re-binds `{seq.id}`: for a mapping it counts keys, so one field object given under two keys is "
            "linked twice instead of being copied (both entries alias one row of the collection array)",
            line=t.lineno,
        )


def check(tier: str) -> Report:
    rep = Report("C15", tier, "other", "alias typing (FRESH/VIEW/MAYBE) and write-effect analysis over structured paths of the field classes")
    rep.explanation = (
        "The six field modules are parsed (never imported). For every anchored method all structured paths are enumerated (branches on "
        "simple facts such as `copy_fields`, `with_ghost_cells`, `out is None` are followed consistently); along each path expressions are "
        "classed FRESH (allocation, np.array(copy=True), .copy(), arithmetic, a field constructor without with_ghost_cells) or VIEW/MAYBE "
        "(parameters, attributes, subscripts, asarray, copy=None) through the definitions reaching them, tools.misc.number_array being "
        "summarised from its own body; writes (re-binding, subscript stores, out=, in-place updates) are collected with the class of their "
        "target. Rules: owned slots re-bound only in the _data_full setter, which always re-derives _data_valid as a view; getters and "
        "_data_flat setters hand out views; data setter / in-place operators / component setters write valid cells of self only; binary "
        "operations write into a fresh copy and never into an operand; the constructor isolates unless with_ghost_cells; copy(), collection "
        "slicing/append/copy isolate members; FieldCollection.__init__ lays members out in field order and re-links them on every path; "
        "component access returns views; out= methods allocate when out is None; nothing else stores through the padded array."
    )
    ix = get_index()
    base = ix.cls(F_BASE, "FieldBase")
    coll = ix.cls(F_COLL, "FieldCollection")
    for rel, name in ((F_DATA, "DataFieldBase"), (F_SCAL, "ScalarField"), (F_VEC, "VectorField"), (F_TENS, "Tensor2Field")):
        c = ix.cls(rel, name)
        if not c.is_subclass_of(base):
            raise AnalysisError(f"{c.ref} no longer derives from FieldBase")
    classes = field_classes(ix, base)
    for c in classes:
        rep.saw("classes", c.ref)
    rep.floor("field classes", len(classes), 6)
    clf = Classifier(ix, field_base=base)
    # `<field>._unary_operation(op)` returns a new field: established by rule_binary on the
    # definitions themselves (FieldBase, FieldCollection), used for the members of a collection
    clf.fresh_methods = {"_unary_operation"}
    setter = pick_def(ix, F_BASE, "FieldBase._data_full", "setter")
    rep.saw("functions", stable_ref(setter))
    nm = ix.func("pde/tools/misc.py", "number_array")
    rep.saw("functions", nm.ref + " (summarised: FRESH iff copy=True)")

    rule_owned_slots(rep, ix, setter)
    rule_setter(rep, ix, clf, setter)
    rule_getters(rep, ix, clf)
    rule_valid_index(rep, ix)
    rule_flat_setters(rep, ix, clf, classes)
    rule_data_setter(rep, ix, clf)
    rule_inplace(rep, ix, clf, classes)
    rule_binary(rep, ix, clf, classes, base)
    rule_constructor(rep, ix, clf)
    rule_copy(rep, ix, clf)
    rule_collection_copies(rep, ix, clf, coll)
    rule_collection_init(rep, ix, clf)
    rule_identity_check_after_unpacking(rep, ix)
    rule_component_views(rep, ix, clf)
    rule_out_protocol(rep, ix, clf, classes)
    rule_inplace_flag(rep, ix, clf, classes)
    rule_padded_writers(rep, ix, classes)

    if clf.unresolved:
        rep.note("calls whose result is not classified (UNKNOWN; never accepted as FRESH or VIEW): " + ", ".join(sorted(clf.unresolved)))
    rep.trusted[:] = [
        "CPython ast",
        "numpy: np.array(x)/copy=True, .copy(), np.copy, np.empty/zeros/ones, arithmetic and ufuncs without out= allocate; basic indexing, .view(), "
        "asarray, copy=None/False, reshape share memory whenever possible; np.array of a python list allocates",
    ]
    rep.assumptions += [
        "index expressions at the anchored view sites are ints/slices/tuples of them (basic indexing); fancy indexing would copy",
        "loops are followed zero times and once; exceptions other than explicit `raise` are not modelled",
        "operator results (apply_operator) are covered through the out-protocol rule; storages through C20",
        "aliasing introduced by numpy itself for exotic dtypes/strides is not decided",
    ]
    thorough_selftest(rep)
    return rep

"""E8 -- tiny abstract domains over expression syntax (stdlib + sympy symbols only).

* ``linform``      : exact linear form  {name: Fraction}  of an arithmetic expression
                      (``+ - * / unary-`` with constant factors); None if not linear.
* ``to_sympy``     : arithmetic expression -> sympy term over named symbols (closed forms).
* ``integer_valued``: is an expression integer-valued (``math.ceil/floor``, ``np.ceil``,
                      ``round(x)``, ``int``, ``len``, int literals, ``+ - *`` of those)?
* ``const_number`` : numeric literal value of an expression (incl. ``-0.5``, ``1/2``).
* ``ordering_fact``: what a comparison node establishes about ``a - b`` on each branch.
* ``FactFlow``     : forward propagation of ordering facts between a cursor variable and
                      a query variable along a CFG (C09: "the answer is not earlier than t").
"""

from __future__ import annotations

import ast
from collections.abc import Callable
from fractions import Fraction

from .cfg import CFG, Node, dotted_name

Lin = dict[str, Fraction]
ONE = "1"


def const_number(e: ast.AST) -> Fraction | None:
    """exact value of a numeric literal expression, else None"""
    if isinstance(e, ast.Constant) and isinstance(e.value, (int, float)) and not isinstance(e.value, bool):
        try:
            return Fraction(str(e.value)) if isinstance(e.value, float) else Fraction(e.value)
        except (ValueError, OverflowError):
            return None
    if isinstance(e, ast.UnaryOp) and isinstance(e.op, (ast.USub, ast.UAdd)):
        v = const_number(e.operand)
        return None if v is None else (-v if isinstance(e.op, ast.USub) else v)
    if isinstance(e, ast.BinOp) and isinstance(e.op, (ast.Add, ast.Sub, ast.Mult, ast.Div)):
        a, b = const_number(e.left), const_number(e.right)
        if a is None or b is None:
            return None
        if isinstance(e.op, ast.Add):
            return a + b
        if isinstance(e.op, ast.Sub):
            return a - b
        if isinstance(e.op, ast.Mult):
            return a * b
        return a / b if b != 0 else None
    return None


def linform(e: ast.AST, atom: Callable[[ast.AST], str | None] | None = None) -> Lin | None:
    """linear form over atoms; ``atom(expr)`` may name additional atomic expressions
    (default: Name / attribute chains).  Zero coefficients are dropped."""

    def name_of(x: ast.AST) -> str | None:
        if atom is not None:
            r = atom(x)
            if r is not None:
                return r
        return dotted_name(x)

    def rec(x: ast.AST) -> Lin | None:
        c = const_number(x)
        if c is not None:
            return {ONE: c}
        nm = name_of(x)
        if nm is not None:
            return {nm: Fraction(1)}
        if isinstance(x, ast.UnaryOp) and isinstance(x.op, (ast.USub, ast.UAdd)):
            r = rec(x.operand)
            if r is None:
                return None
            return {k: -v for k, v in r.items()} if isinstance(x.op, ast.USub) else r
        if isinstance(x, ast.BinOp):
            if isinstance(x.op, (ast.Add, ast.Sub)):
                a, b = rec(x.left), rec(x.right)
                if a is None or b is None:
                    return None
                out = dict(a)
                s = 1 if isinstance(x.op, ast.Add) else -1
                for k, v in b.items():
                    out[k] = out.get(k, Fraction(0)) + s * v
                return out
            if isinstance(x.op, ast.Mult):
                ca, cb = const_number(x.left), const_number(x.right)
                if ca is not None:
                    r = rec(x.right)
                    return None if r is None else {k: ca * v for k, v in r.items()}
                if cb is not None:
                    r = rec(x.left)
                    return None if r is None else {k: cb * v for k, v in r.items()}
                return None
            if isinstance(x.op, ast.Div):
                cb = const_number(x.right)
                if cb is not None and cb != 0:
                    r = rec(x.left)
                    return None if r is None else {k: v / cb for k, v in r.items()}
                return None
        return None

    r = rec(e)
    if r is None:
        return None
    return {k: v for k, v in r.items() if v != 0}


def lin_sub(a: Lin, b: Lin) -> Lin:
    out = dict(a)
    for k, v in b.items():
        out[k] = out.get(k, Fraction(0)) - v
    return {k: v for k, v in out.items() if v != 0}


def lin_ratio(a: Lin, b: Lin) -> Fraction | None:
    """c with a == c*b (c != 0), else None"""
    if not a or not b or set(a) != set(b):
        return None
    k0 = next(iter(b))
    c = a[k0] / b[k0]
    if c == 0 or any(a[k] != c * b[k] for k in b):
        return None
    return c


def lin_str(a: Lin) -> str:
    return " + ".join(f"{v}*{k}" for k, v in sorted(a.items())) or "0"


# ---------------------------------------------------------------------- comparisons
_FLIP = {ast.Lt: ast.Gt, ast.Gt: ast.Lt, ast.LtE: ast.GtE, ast.GtE: ast.LtE}


def compare_form(test: ast.AST, atom=None) -> tuple[Lin, str] | None:
    """normalise a single comparison ``l OP r`` to (lin(l - r), op) with op in
    '<', '<=', '>', '>='; None for anything else"""
    if not (isinstance(test, ast.Compare) and len(test.ops) == 1):
        return None
    op = type(test.ops[0])
    names = {ast.Lt: "<", ast.LtE: "<=", ast.Gt: ">", ast.GtE: ">="}
    if op not in names:
        return None
    l, r = linform(test.left, atom), linform(test.comparators[0], atom)
    if l is None or r is None:
        return None
    return lin_sub(l, r), names[op]


def ordering_fact(test: ast.AST, a: str, b: str, atom=None) -> dict[str, str] | None:
    """what the two branches of ``test`` establish about the sign of ``a - b``:
    returns {'true': rel, 'false': rel} with rel in '<','<=','>','>=' (meaning a rel b),
    or None when the test is not a comparison of exactly ``a`` against ``b``."""
    cf = compare_form(test, atom)
    if cf is None:
        return None
    d, op = cf
    c = lin_ratio(d, {a: Fraction(1), b: Fraction(-1)})
    if c is None:
        return None
    if c < 0:
        op = {"<": ">", "<=": ">=", ">": "<", ">=": "<="}[op]
    neg = {"<": ">=", "<=": ">", ">": "<=", ">=": "<"}[op]
    return {"true": op, "false": neg}


# ---------------------------------------------------------------------- integer-valued
INT_FUNCS = {
    "math.ceil",
    "math.floor",
    "math.trunc",
    "np.ceil",
    "np.floor",
    "np.rint",
    "np.trunc",
    "numpy.ceil",
    "numpy.floor",
    "numpy.rint",
    "int",
    "len",
}


def integer_valued(e: ast.AST, lookup: Callable[[str], list[ast.AST] | None] | None = None, _depth: int = 0) -> bool:
    """is the expression integer-valued?  ``lookup(name)`` returns the expressions the
    name may have been bound to (all reaching definitions) or None when unknown."""
    if _depth > 6:
        return False
    if isinstance(e, ast.Constant):
        return isinstance(e.value, int) and not isinstance(e.value, bool)
    if isinstance(e, ast.UnaryOp) and isinstance(e.op, (ast.USub, ast.UAdd)):
        return integer_valued(e.operand, lookup, _depth + 1)
    if isinstance(e, ast.BinOp) and isinstance(e.op, (ast.Add, ast.Sub, ast.Mult, ast.FloorDiv)):
        if isinstance(e.op, ast.FloorDiv):
            return integer_valued(e.left, lookup, _depth + 1) and integer_valued(e.right, lookup, _depth + 1)
        return integer_valued(e.left, lookup, _depth + 1) and integer_valued(e.right, lookup, _depth + 1)
    if isinstance(e, ast.Call):
        fn = dotted_name(e.func)
        if fn in INT_FUNCS and len(e.args) >= 1:
            return True
        if fn in ("round", "np.round", "numpy.round") and len(e.args) == 1 and not e.keywords:
            return True
        if fn in ("max", "min") and e.args and not e.keywords:
            return all(integer_valued(a, lookup, _depth + 1) for a in e.args)
        return False
    nm = dotted_name(e)
    if nm is not None and lookup is not None:
        vals = lookup(nm)
        if vals:
            return all(integer_valued(v, lookup, _depth + 1) for v in vals)
    return False


# ---------------------------------------------------------------------- sympy closed forms
def to_sympy(e: ast.AST, atom: Callable[[ast.AST], object | None] | None = None):
    """arithmetic expression -> sympy; ``atom(expr)`` may map a sub-expression to a sympy
    term (e.g. ``solver.info['dt']`` -> Symbol('dt')).  Raises ValueError otherwise."""
    import sympy as sp

    def rec(x: ast.AST):
        if atom is not None:
            r = atom(x)
            if r is not None:
                return r
        c = const_number(x) if isinstance(x, ast.Constant) else None
        if c is not None:
            return sp.Rational(c.numerator, c.denominator)
        nm = dotted_name(x)
        if nm is not None:
            return sp.Symbol(nm, real=True)
        if isinstance(x, ast.UnaryOp) and isinstance(x.op, (ast.USub, ast.UAdd)):
            v = rec(x.operand)
            return -v if isinstance(x.op, ast.USub) else v
        if isinstance(x, ast.BinOp):
            a, b = rec(x.left), rec(x.right)
            if isinstance(x.op, ast.Add):
                return a + b
            if isinstance(x.op, ast.Sub):
                return a - b
            if isinstance(x.op, ast.Mult):
                return a * b
            if isinstance(x.op, ast.Div):
                return a / b
            if isinstance(x.op, ast.Pow):
                return a**b
            if isinstance(x.op, ast.FloorDiv):
                return sp.floor(a / b)
        if isinstance(x, ast.Call) and not x.keywords:
            fn = dotted_name(x.func)
            args = [rec(a) for a in x.args]
            if fn == "max":
                return sp.Function("max")(*sorted(args, key=str))
            if fn == "min":
                return sp.Function("min")(*sorted(args, key=str))
            if fn == "round" and len(args) == 1:
                return sp.Function("round")(args[0])
            if fn in ("math.ceil", "np.ceil") and len(args) == 1:
                return sp.Function("ceil")(args[0])
            if fn in ("float", "int") and len(args) == 1:
                return args[0] if fn == "float" else sp.Function("int")(args[0])
            if fn in ("abs", "np.abs") and len(args) == 1:
                return sp.Abs(args[0])
            if fn in ("np.log", "math.log") and len(args) == 1:
                return sp.Function("log")(args[0])
        raise ValueError(f"not an arithmetic closed form: {ast.unparse(x)}")

    return rec(e)


# ---------------------------------------------------------------------- ordering facts along a CFG
class FactFlow:
    """Forward may-analysis of what is known about ``cursor`` relative to ``query``.

    Facts: '?' (nothing known), '<', '<=', '>', '>=' (cursor REL query holds),
    'repaired' (a store that ``repair(node, fact)`` accepts happened in a state where
    the cursor was known to be behind).  A store to the cursor resets the fact to '?'
    (or to what ``store_fact(node, fact_before)`` returns); a comparison of the two
    refines it on its ``true``/``false`` edges; a store to the query variable resets it.
    ``facts_at(node)`` is the set of facts that may hold on entry to the node.
    """

    def __init__(
        self,
        cfg: CFG,
        cursor: str,
        query: str,
        store_fact: Callable[[Node, str], str] | None = None,
        atom=None,
    ):
        self.cfg, self.cursor, self.query = cfg, cursor, query
        self.store_fact = store_fact
        self.atom = atom
        self.IN: dict[Node, set[str]] = {n: set() for n in cfg.nodes}
        self._run()

    def _run(self) -> None:
        cfg = self.cfg
        self.IN[cfg.entry] = {"?"}
        work = [cfg.entry]
        while work:
            n = work.pop()
            defs = cfg.defs_at(n) if n.kind != "entry" else set()
            stores = self.cursor in defs or self.query in defs
            branch = None
            if n.kind in ("if", "while") and not stores:
                branch = ordering_fact(n.ast.test, self.cursor, self.query, self.atom)
            for s, lab in n.succ:
                out: set[str] = set()
                for f in self.IN[n]:
                    if stores and lab not in ("exc", "raise"):
                        g = "?"
                        if self.cursor in defs and self.query not in defs and self.store_fact is not None:
                            g = self.store_fact(n, f)
                        out.add(g)
                    elif stores:
                        out.add("?")
                    elif branch is not None and lab in ("true", "false"):
                        out.add(branch[lab])
                    else:
                        out.add(f)
                if not out <= self.IN[s]:
                    self.IN[s] |= out
                    work.append(s)

    def facts_at(self, n: Node) -> set[str]:
        return set(self.IN[n])

"""Stencil normal form, Taylor residuals and valuations (shared by C01/C03/C05/C18)."""

from __future__ import annotations

import itertools
from dataclasses import dataclass, field
from typing import Any

import sympy as sp
from sympy.core.function import AppliedUndef

from .fx import ALL, Unsupported
from .kernels import Kernel
from .oracle import Oracle, jet_symbol, taylor_cell, to_jets

EPS = sp.Symbol("eps", positive=True)


@dataclass
class Table:
    """out[comp] = term over arr(comp', cell + offset); loop symbols name the cell"""

    n_axes: int
    loop_syms: tuple
    comps: dict[tuple, Any] = field(default_factory=dict)
    problems: list[str] = field(default_factory=list)


def loop_symbols(k: Kernel, n_axes: int) -> tuple:
    seen = []
    for lp in k.loops:
        if lp.sym not in seen:
            seen.append(lp.sym)
    if len(seen) < n_axes:
        raise Unsupported(f"kernel {k.factory} iterates {len(seen)} axes, expected {n_axes}")
    return tuple(seen[:n_axes])


def kernel_table(k: Kernel, n_axes: int) -> Table:
    syms = loop_symbols(k, n_axes)
    t = Table(n_axes=n_axes, loop_syms=syms)
    for idx, term in k.out.items():
        if len(idx) < n_axes:
            # whole-component store such as out_x[:] = 0 recorded with trailing ALL removed
            comp, spat = tuple(idx), ()
        else:
            comp, spat = tuple(idx[: len(idx) - n_axes]), tuple(idx[len(idx) - n_axes :])
        if any(s is ALL for s in spat) or not spat:
            comp = tuple(c for c in idx if c is not ALL)
            if sp.sympify(term).free_symbols & set(syms):
                t.problems.append(f"whole-array store to out{list(idx)} depends on a loop variable")
            if len(comp) and not all(sp.sympify(c).is_Integer for c in comp):
                raise Unsupported(f"component index {comp} is not constant")
        else:
            for s, lv in zip(spat, syms):
                if sp.simplify(s - (lv - 1)) != 0:
                    t.problems.append(f"store out{list(idx)}: spatial index `{s}` is not the valid cell `{lv}-1` of the iteration")
        comp = tuple(int(c) for c in comp)
        if comp in t.comps and sp.simplify(t.comps[comp] - term) != 0:
            # a later element-wise store overrides an earlier whole-array store
            if any(s is ALL for s in spat):
                continue
        t.comps[comp] = sp.sympify(term)
    return t


def cell_offsets(cell: AppliedUndef, syms: tuple) -> tuple[tuple, tuple]:
    """arr(c..., i+o, j+p) -> (comp, offsets)"""
    args = cell.args
    n = len(syms)
    if len(args) < n:
        raise Unsupported(f"cell {cell} has fewer indices than axes")
    comp, spat = args[: len(args) - n], args[len(args) - n :]
    offs = []
    for s, lv in zip(spat, syms):
        o = sp.simplify(s - lv)
        if not o.is_Integer:
            raise Unsupported(f"cell {cell}: offset `{o}` along `{lv}` is not a constant")
        offs.append(int(o))
    if not all(sp.sympify(c).is_Integer for c in comp):
        raise Unsupported(f"cell {cell}: component index is not constant")
    return tuple(int(c) for c in comp), tuple(offs)


def linear_stencil(term, syms: tuple, base: str = "arr") -> dict[tuple, Any] | None:
    """{(comp, offsets): coefficient} if the term is linear in cells, else None"""
    term = sp.expand(sp.sympify(term))
    cells = [a for a in term.atoms(AppliedUndef) if a.func.__name__ == base]
    out = {}
    rest = term
    for c in cells:
        co = term.coeff(c)
        if co.has(*cells):
            return None
        out[cell_offsets(c, syms)] = sp.simplify(co)
        rest = rest - co * c
    rest = sp.simplify(rest)
    if rest != 0:
        if any(rest.has(c) for c in cells):
            return None
        out[("const",)] = rest
    return out


def substitute_taylor(term, syms: tuple, hs: tuple, order: int, base: str = "arr"):
    term = sp.sympify(term)
    repl = {}
    for c in term.atoms(AppliedUndef):
        if c.func.__name__ != base:
            continue
        comp, offs = cell_offsets(c, syms)
        repl[c] = taylor_cell(comp, offs, hs, order)
    return term.xreplace(repl)


def position_subs(grid, syms: tuple, X: tuple) -> dict:
    """loop variable i_k  ->  (X_k - lo_k)/h_k + 1/2   (padded index i <-> valid cell i-1)"""
    subs = {}
    hs = grid._attrs["discretization"].items
    for k, (lv, x) in enumerate(zip(syms, X)):
        lo = grid._attrs["axes_bounds"][k][0]
        subs[lv] = (x - lo) / hs[k] + sp.Rational(1, 2)
    return subs


def valuation(expr, eps=EPS) -> Any:
    """order of vanishing of a rational function of eps at eps = 0 (oo for 0)"""
    expr = sp.together(sp.sympify(expr))
    if expr == 0:
        return sp.oo
    num, den = sp.fraction(expr)
    num = sp.expand(num)
    den = sp.expand(den)
    if num == 0:
        return sp.oo

    def val(p):
        P = sp.Poly(p, eps)
        best = None
        for (m,), c in zip(P.monoms(), P.coeffs()):
            if sp.simplify(c) != 0:
                best = m if best is None else min(best, m)
        return best

    try:
        vn, vd = val(num), val(den)
    except sp.PolynomialError as e:
        raise Unsupported(f"valuation of a non-rational expression: {e}") from e
    if vn is None:
        return sp.oo
    return vn - vd


def jets_in(expr) -> list:
    return sorted([s for s in sp.sympify(expr).free_symbols if s.name.startswith("J_")], key=lambda s: s.name)


def residual_orders(stencil_jets, oracle_jets, hs: tuple, etas: tuple | None = None):
    """minimal eps-valuation over all jet-monomial coefficients of (stencil - oracle)
    with h_k = eps * eta_k; returns (valuation, leading residual term)"""
    res = sp.sympify(stencil_jets) - sp.sympify(oracle_jets)
    etas = etas or tuple(sp.Symbol(f"eta{k}", positive=True) for k in range(len(hs)))
    res = res.subs({h: EPS * e for h, e in zip(hs, etas)})
    res = sp.expand(sp.together(res).doit())
    js = jets_in(res)
    if not js:
        v = valuation(res)
        return v, res
    try:
        P = sp.Poly(res, *js)
        items = list(zip(P.monoms(), P.coeffs()))
    except sp.PolynomialError:
        coll = sp.collect(res, js, evaluate=False)
        items = [(k, v) for k, v in coll.items()]
    best = sp.oo
    lead = None
    for mono, coeff in items:
        v = valuation(coeff)
        if v < best:
            best = v
            lead = (mono, coeff)
    return best, lead


def piecewise_cases(expr, loop_syms) -> list:
    """index values singled out by element stores into index-parametrised arrays: [(loop symbol, value)]"""
    out = []
    for pw in sp.sympify(expr).atoms(sp.Piecewise):
        for e, c in pw.args:
            if isinstance(c, sp.Equality):
                for ls in loop_syms:
                    if c.has(ls):
                        sol = sp.solve(c, ls)
                        for v in sol:
                            if (ls, v) not in out:
                                out.append((ls, v))
    return out


def resolve_piecewise(expr, fixed: dict | None = None):
    """replace every Piecewise by the branch selected when the loop symbols take the values in `fixed`
    (conditions only; the expressions keep the symbols); without `fixed`: the generic cell (default branch)"""
    expr = sp.sympify(expr)

    def pick(pw):
        for e, c in pw.args:
            if c is sp.true or c == True:  # noqa: E712
                return e
            if fixed is not None:
                cv = c.subs(fixed)
                if cv is sp.true or cv == True:  # noqa: E712
                    return e
        return pw.args[-1][0]

    while expr.has(sp.Piecewise):
        expr = expr.replace(lambda x: isinstance(x, sp.Piecewise), pick)
    return expr

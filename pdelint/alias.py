"""Alias / effect analysis shared by C15 and C20 (E0 alias rules + a light E4).

Three small engines, all working on syntax trees only:

* **paths** -- structured path enumeration of a function body (``if``/``for``/
  ``while``/``try``/``with``/``return``/``raise``/``break``/``continue``); loops are
  taken zero times and once; branch tests over *simple facts* (truthiness of a name,
  ``x is None``, ``x == "const"``, ``x in {consts}``, ``not``/``and``/``or`` of those)
  are followed consistently along a path, everything else forks.  ``super().m()`` /
  ``self.m()`` statements can be spliced in through an ``inline`` callback.
* **values** -- classification of an expression at a point of a path as ``FRESH``
  (newly allocated: ``np.array(x)``/``copy=True``, ``.copy()``, ``np.copy``, allocation,
  arithmetic, a field constructor without ``with_ghost_cells=True``...), ``VIEW``
  (shares memory with its *roots*: parameters, attributes, subscripts, ``.view()``),
  ``MAYBE`` (shares whenever numpy can: ``asarray``, ``copy=None/False``, ``reshape``) or
  ``UNKNOWN`` (result of a call that is not understood).  Local names are resolved
  through the definitions that reach the point *on that path*; module functions that
  can be resolved through the index are summarised by classifying their own return
  values under the constant arguments of the call (``number_array(x, copy=True)``).
* **effects** -- the writes a path performs: attribute re-binding, subscript stores,
  augmented assignments, ``out=``/``output=`` keywords, mutating method calls; each
  with the classification of the object written into.

Nothing here looks at source text, positions or names of local variables.
"""

from __future__ import annotations

import ast
import re
from dataclasses import dataclass
from typing import Callable, Iterable

from .core import AnalysisError
from .index import ClassInfo, FuncInfo, Index, strip_doc

FRESH, MAYBE, VIEW, UNKNOWN = "FRESH", "MAYBE", "VIEW", "UNKNOWN"
_ORDER = {FRESH: 0, MAYBE: 1, VIEW: 2, UNKNOWN: 3}

# --------------------------------------------------------------------------- chains
_MANGLED = re.compile(r"^_[A-Za-z][A-Za-z0-9]*?(__[A-Za-z0-9_]*[A-Za-z0-9])$")


def norm_attr(name: str) -> str:
    """``_FieldBase__data_full`` and ``__data_full`` (inside the class) name the same slot"""
    m = _MANGLED.match(name)
    if m and not name.endswith("__"):
        return m.group(1)
    return name


def chain_str(node: ast.AST) -> str | None:
    """dotted access path of an expression (``self.data[]``, ``self._field.copy()``) or
    None if the expression is not a pure access path"""
    if isinstance(node, ast.Name):
        return node.id
    if isinstance(node, ast.Attribute):
        b = chain_str(node.value)
        return None if b is None else f"{b}.{norm_attr(node.attr)}"
    if isinstance(node, ast.Subscript):
        b = chain_str(node.value)
        return None if b is None else f"{b}[]"
    if isinstance(node, ast.Call):
        b = chain_str(node.func)
        return None if b is None else f"{b}()"
    if isinstance(node, ast.Starred):
        return chain_str(node.value)
    return None


def is_super_call(node: ast.AST) -> str | None:
    """``super().name(...)`` -> name"""
    if (
        isinstance(node, ast.Call)
        and isinstance(node.func, ast.Attribute)
        and isinstance(node.func.value, ast.Call)
        and isinstance(node.func.value.func, ast.Name)
        and node.func.value.func.id == "super"
    ):
        return node.func.attr
    return None


def is_self_call(node: ast.AST, selfname: str = "self") -> str | None:
    """``self.name(...)`` -> name"""
    if (
        isinstance(node, ast.Call)
        and isinstance(node.func, ast.Attribute)
        and isinstance(node.func.value, ast.Name)
        and node.func.value.id == selfname
    ):
        return node.func.attr
    return None


def same_expr(a: ast.AST | None, b: ast.AST | None) -> bool:
    if a is None or b is None:
        return a is b
    return ast.dump(a) == ast.dump(b)


def param_names(fn: ast.FunctionDef) -> list[str]:
    a = fn.args
    out = [p.arg for p in a.posonlyargs + a.args + a.kwonlyargs]
    if a.vararg:
        out.append(a.vararg.arg)
    if a.kwarg:
        out.append(a.kwarg.arg)
    return out


def bound_names(target: ast.AST) -> list[str]:
    out = []
    for n in ast.walk(target):
        if isinstance(n, ast.Name) and isinstance(n.ctx, (ast.Store, ast.Del)):
            out.append(n.id)
    return out


# --------------------------------------------------------------------------- facts
_MISSING = object()


def _const(node: ast.AST):
    if isinstance(node, ast.Constant):
        return node.value
    return _MISSING


def _const_set(node: ast.AST):
    if isinstance(node, (ast.Set, ast.Tuple, ast.List)):
        vals = [_const(e) for e in node.elts]
        if all(v is not _MISSING for v in vals):
            return vals
    return None


def _place(node: ast.AST) -> str | None:
    if isinstance(node, (ast.Name, ast.Attribute)):
        c = chain_str(node)
        if c and "[]" not in c and "()" not in c:
            return c
    return None


class Facts:
    """per-path knowledge about places (names / attribute chains)"""

    def __init__(self, d: dict | None = None):
        self.d: dict[str, dict] = d or {}

    def copy(self) -> "Facts":
        return Facts({k: {kk: (set(vv) if isinstance(vv, set) else vv) for kk, vv in v.items()} for k, v in self.d.items()})

    def get(self, p: str) -> dict:
        return self.d.get(p, {})

    def forget(self, p: str) -> None:
        for k in [k for k in self.d if k == p or k.startswith(p + ".")]:
            del self.d[k]

    def set_eq(self, p: str, v) -> None:
        self.forget(p)
        self.d[p] = {"eq": v}

    def only_attrs(self, root: str = "self") -> "Facts":
        return Facts({k: v for k, v in self.copy().d.items() if k.startswith(root + ".")})

    def merge_attrs(self, other: "Facts", root: str = "self") -> None:
        for k in [k for k in self.d if k.startswith(root + ".")]:
            del self.d[k]
        for k, v in other.copy().d.items():
            if k.startswith(root + "."):
                self.d[k] = v

    # -- three-valued evaluation
    def eval(self, t: ast.AST):
        c = _const(t)
        if c is not _MISSING:
            return bool(c)
        p = _place(t)
        if p is not None:
            f = self.get(p)
            if "eq" in f:
                return bool(f["eq"])
            if "truth" in f:
                return f["truth"]
            return None
        if isinstance(t, ast.UnaryOp) and isinstance(t.op, ast.Not):
            v = self.eval(t.operand)
            return None if v is None else (not v)
        if isinstance(t, ast.BoolOp):
            vals = [self.eval(v) for v in t.values]
            if isinstance(t.op, ast.And):
                if any(v is False for v in vals):
                    return False
                return True if all(v is True for v in vals) else None
            if any(v is True for v in vals):
                return True
            return False if all(v is False for v in vals) else None
        if isinstance(t, ast.Compare) and len(t.ops) == 1:
            op, lhs, rhs = t.ops[0], t.left, t.comparators[0]
            p, c = _place(lhs), _const(rhs)
            if p is None and _place(rhs) is not None and _const(lhs) is not _MISSING and isinstance(op, (ast.Eq, ast.NotEq)):
                p, c = _place(rhs), _const(lhs)
            if p is None:
                return None
            f = self.get(p)
            if isinstance(op, (ast.Eq, ast.NotEq, ast.Is, ast.IsNot)) and c is not _MISSING:
                neg = isinstance(op, (ast.NotEq, ast.IsNot))
                res = None
                if "eq" in f:
                    res = (f["eq"] is c) if c is None or isinstance(c, bool) else (f["eq"] == c and type(f["eq"]) is type(c))
                elif c in _safe(f.get("ne", ())):
                    res = False
                elif c is None and f.get("truth") is True:
                    res = False
                if res is None:
                    return None
                return (not res) if neg else res
            if isinstance(op, (ast.In, ast.NotIn)):
                cs = _const_set(rhs)
                if cs is None:
                    return None
                res = None
                if "eq" in f:
                    res = f["eq"] in cs
                elif all(x in _safe(f.get("ne", ())) for x in cs):
                    res = False
                if res is None:
                    return None
                return (not res) if isinstance(op, ast.NotIn) else res
        return None

    # -- assume a test has the given truth value; False when contradictory
    def assume(self, t: ast.AST, truth: bool) -> bool:
        v = self.eval(t)
        if v is not None:
            return v == truth
        p = _place(t)
        if p is not None:
            self.d.setdefault(p, {})["truth"] = truth
            return True
        if isinstance(t, ast.UnaryOp) and isinstance(t.op, ast.Not):
            return self.assume(t.operand, not truth)
        if isinstance(t, ast.BoolOp):
            conj = isinstance(t.op, ast.And)
            if conj == truth:  # all conjuncts true / all disjuncts false
                return all(self.assume(v, truth) for v in t.values)
            unknown = [v for v in t.values if self.eval(v) is None]
            if len(unknown) == 1:
                return self.assume(unknown[0], truth)
            return True
        if isinstance(t, ast.Compare) and len(t.ops) == 1:
            op, lhs, rhs = t.ops[0], t.left, t.comparators[0]
            p, c = _place(lhs), _const(rhs)
            if p is None and _place(rhs) is not None and _const(lhs) is not _MISSING and isinstance(op, (ast.Eq, ast.NotEq)):
                p, c = _place(rhs), _const(lhs)
            if p is None:
                return True
            f = self.d.setdefault(p, {})
            if isinstance(op, (ast.Eq, ast.NotEq, ast.Is, ast.IsNot)) and c is not _MISSING:
                equal = truth != isinstance(op, (ast.NotEq, ast.IsNot))
                if equal:
                    self.set_eq(p, c)
                else:
                    f.setdefault("ne", set())
                    if _hashable(c):
                        f["ne"].add(c)
                return True
            if isinstance(op, (ast.In, ast.NotIn)):
                cs = _const_set(rhs)
                if cs is None:
                    return True
                member = truth != isinstance(op, ast.NotIn)
                if member:
                    if len(cs) == 1:
                        self.set_eq(p, cs[0])
                else:
                    f.setdefault("ne", set()).update(x for x in cs if _hashable(x))
                return True
        return True


def _hashable(x) -> bool:
    try:
        hash(x)
        return True
    except TypeError:
        return False


def _safe(s) -> set:
    return s if isinstance(s, set) else set(s)


# --------------------------------------------------------------------------- paths
@dataclass(eq=False)
class Ev:
    kind: str  # stmt | decide | loop | bind | return | raise | enter | leave | except
    node: ast.AST | None
    frame: int
    truth: bool | None = None
    loops: tuple = ()  # enclosing loop nodes (of the same frame)
    extra: object = None


@dataclass(eq=False)
class Def:
    kind: str  # assign | aug | iter | with | unpack | other
    value: ast.AST | None
    idx: int
    node: ast.AST | None = None


@dataclass(eq=False)
class Path:
    evs: list[Ev]
    exit: str  # return | raise | end
    value: ast.AST | None
    facts: Facts
    frames: dict[int, FuncInfo]

    @property
    def normal(self) -> bool:
        return self.exit in ("return", "end")

    def stmts(self, frame: int | None = 0) -> Iterable[tuple[int, ast.stmt]]:
        for i, e in enumerate(self.evs):
            if e.kind in ("stmt", "return", "raise") and (frame is None or e.frame == frame):
                yield i, e.node

    def decisions(self, frame: int | None = 0) -> list[tuple[ast.AST, bool]]:
        return [(e.node, e.truth) for e in self.evs if e.kind == "decide" and (frame is None or e.frame == frame)]

    def decided(self, pred: Callable[[ast.AST], bool], frame: int | None = 0):
        """truth value with which a test satisfying ``pred`` was decided on this path"""
        for t, truth in self.decisions(frame):
            if pred(t):
                return truth
        return None

    def passes(self, node: ast.AST) -> bool:
        return any(e.node is node for e in self.evs)

    def index_of(self, node: ast.AST) -> int:
        for i, e in enumerate(self.evs):
            if e.node is node and e.kind != "decide":
                return i
        return -1

    # -- reaching definition of a local name at event index idx (same frame)
    def lookup(self, name: str, idx: int, frame: int | None = None) -> Def | None:
        if frame is None:
            frame = self.evs[min(idx, len(self.evs) - 1)].frame if self.evs else 0
        for j in range(min(idx, len(self.evs)) - 1, -1, -1):
            e = self.evs[j]
            if e.frame != frame:
                continue
            if e.kind == "bind":
                tgt, src = e.node, e.extra
                if name in bound_names(tgt):
                    if isinstance(tgt, ast.Name):
                        return Def(src[0], src[1], j, tgt)
                    return Def("unpack-" + src[0], src[1], j, tgt)
                continue
            if e.kind != "stmt":
                continue
            s = e.node
            if isinstance(s, ast.Assign):
                for t in s.targets:
                    d = _match_target(t, s.value, name, j)
                    if d:
                        return d
            elif isinstance(s, ast.AnnAssign) and s.value is not None:
                d = _match_target(s.target, s.value, name, j)
                if d:
                    return d
            elif isinstance(s, ast.AugAssign):
                if isinstance(s.target, ast.Name) and s.target.id == name:
                    return Def("aug", s.value, j, s)
            elif isinstance(s, (ast.FunctionDef, ast.ClassDef)):
                if s.name == name:
                    return Def("other", None, j, s)
            elif isinstance(s, (ast.Import, ast.ImportFrom)):
                for a in s.names:
                    if (a.asname or a.name.split(".")[0]) == name:
                        return Def("other", None, j, s)
            elif isinstance(s, ast.Delete):
                if name in [n for t in s.targets for n in bound_names(t)]:
                    return Def("other", None, j, s)
        return None


def _match_target(t: ast.AST, value: ast.AST, name: str, j: int) -> Def | None:
    if isinstance(t, ast.Name):
        return Def("assign", value, j, t) if t.id == name else None
    if isinstance(t, (ast.Tuple, ast.List)):
        if name not in bound_names(t):
            return None
        if isinstance(value, (ast.Tuple, ast.List)) and len(value.elts) == len(t.elts) and not any(isinstance(x, ast.Starred) for x in list(t.elts) + list(value.elts)):
            for tt, vv in zip(t.elts, value.elts):
                d = _match_target(tt, vv, name, j)
                if d:
                    return d
        return Def("unpack", value, j, t)
    return None


class _State:
    __slots__ = ("evs", "facts", "frame", "loops", "frames", "nframes")

    def __init__(self, evs, facts, frame, loops, frames, nframes):
        self.evs, self.facts, self.frame, self.loops, self.frames, self.nframes = evs, facts, frame, loops, frames, nframes

    def fork(self) -> "_State":
        return _State(list(self.evs), self.facts.copy(), self.frame, self.loops, dict(self.frames), self.nframes)

    def add(self, kind, node, **kw) -> None:
        self.evs.append(Ev(kind, node, self.frame, loops=self.loops, **kw))


class PathEnumerator:
    """enumerate the structured paths of a function (see module docstring)"""

    def __init__(self, inline: Callable[[ast.Call, FuncInfo], FuncInfo | None] | None = None, max_paths: int = 6000, max_depth: int = 3):
        self.inline = inline
        self.max_paths = max_paths
        self.max_depth = max_depth

    def run(self, fi: FuncInfo, facts: Facts | None = None) -> list[Path]:
        st = _State([], facts.copy() if facts else Facts(), 0, (), {0: fi}, [1])
        res = self._seq(strip_doc(fi.node.body), st, fi, 0)
        out = []
        for s, oc, v in res:
            if oc in ("break", "continue"):
                raise AnalysisError(f"{fi.ref}: `{oc}` outside a loop")
            out.append(Path(s.evs, "end" if oc == "next" else oc, v, s.facts, s.frames))
        return out

    # results are lists of (state, outcome, value); outcome: next|break|continue|return|raise
    def _seq(self, stmts, st, fi, depth):
        results = [(st, "next", None)]
        for s in stmts:
            new = []
            for st1, oc, v in results:
                if oc != "next":
                    new.append((st1, oc, v))
                else:
                    new.extend(self._stmt(s, st1, fi, depth))
            results = new
            if len(results) > self.max_paths:
                raise AnalysisError(f"{fi.ref}: more than {self.max_paths} paths")
        return results

    def _branch(self, test, st, fi, depth, body, orelse):
        out = []
        known = st.facts.eval(test)
        for truth in (True, False):
            if known is not None and known != truth:
                continue
            s2 = st.fork()
            if not s2.facts.assume(test, truth):
                continue
            s2.add("decide", test, truth=truth)
            out.extend(self._seq(body if truth else orelse, s2, fi, depth))
        return out

    def _assign_facts(self, st, target, value) -> None:
        if isinstance(target, (ast.Tuple, ast.List)):
            vals = value.elts if isinstance(value, (ast.Tuple, ast.List)) and len(value.elts) == len(target.elts) else [None] * len(target.elts)
            for t, v in zip(target.elts, vals):
                self._assign_facts(st, t, v)
            return
        if isinstance(target, ast.Starred):
            return self._assign_facts(st, target.value, None)
        p = _place(target)
        if p is None:
            return
        c = _const(value) if value is not None else _MISSING
        src = _place(value) if value is not None else None
        if c is not _MISSING:
            st.facts.set_eq(p, c)
        elif src is not None and src != p and st.facts.get(src):
            known = st.facts.copy().get(src)  # ``mode = self.write_mode`` copies what is known
            st.facts.forget(p)
            st.facts.d[p] = known
        else:
            st.facts.forget(p)

    def _stmt(self, s, st, fi, depth):
        if isinstance(s, ast.If):
            return self._branch(s.test, st, fi, depth, s.body, s.orelse)
        if isinstance(s, (ast.For, ast.AsyncFor)):
            st.add("loop", s)
            out = []
            # zero iterations
            z = st.fork()
            z.add("decide", s, truth=False, extra="loop-skipped")
            out.extend(self._seq(s.orelse, z, fi, depth))
            # one iteration
            o = st.fork()
            o.loops = st.loops + (s,)
            o.add("bind", s.target, extra=("iter", s.iter))
            for n in bound_names(s.target):
                o.facts.forget(n)
            for s2, oc, v in self._seq(s.body, o, fi, depth):
                s2.loops = st.loops
                if oc in ("next", "continue"):
                    out.extend(self._seq(s.orelse, s2, fi, depth))
                elif oc == "break":
                    out.append((s2, "next", None))
                else:
                    out.append((s2, oc, v))
            return out
        if isinstance(s, ast.While):
            st.add("loop", s)
            out = []
            known = st.facts.eval(s.test)
            if known is not True:
                z = st.fork()
                if z.facts.assume(s.test, False):
                    z.add("decide", s.test, truth=False)
                    out.extend(self._seq(s.orelse, z, fi, depth))
            if known is not False:
                o = st.fork()
                if o.facts.assume(s.test, True):
                    o.add("decide", s.test, truth=True)
                    o.loops = st.loops + (s,)
                    for s2, oc, v in self._seq(s.body, o, fi, depth):
                        s2.loops = st.loops
                        if oc in ("next", "continue", "break"):
                            out.append((s2, "next", None))
                        else:
                            out.append((s2, oc, v))
            return out
        if isinstance(s, (ast.With, ast.AsyncWith)):
            for it in s.items:
                st.add("stmt", ast.Expr(value=it.context_expr))
                if it.optional_vars is not None:
                    st.add("bind", it.optional_vars, extra=("with", it.context_expr))
            return self._seq(s.body, st, fi, depth)
        if isinstance(s, ast.Try) or s.__class__.__name__ == "TryStar":
            out = []
            # (a) no exception
            for s2, oc, v in self._seq(s.body, st.fork(), fi, depth):
                if oc == "next":
                    for s3, oc3, v3 in self._seq(s.orelse, s2, fi, depth):
                        out.extend(self._finally(s, s3, oc3, v3, fi, depth))
                elif oc == "raise" and s.handlers:
                    # an explicit raise inside the body may be caught: both outcomes
                    out.extend(self._finally(s, s2, oc, v, fi, depth))
                else:
                    out.extend(self._finally(s, s2, oc, v, fi, depth))
            # (b) exception raised by the first statement of the body, caught by a handler
            for h in s.handlers:
                s2 = st.fork()
                s2.add("except", h)
                if h.name:
                    s2.add("bind", ast.Name(id=h.name, ctx=ast.Store()), extra=("other", None))
                for s3, oc3, v3 in self._seq(h.body, s2, fi, depth):
                    out.extend(self._finally(s, s3, oc3, v3, fi, depth))
            return out
        if isinstance(s, ast.Return):
            st.add("return", s)
            return [(st, "return", s.value)]
        if isinstance(s, ast.Raise):
            st.add("raise", s)
            return [(st, "raise", s.exc)]
        if isinstance(s, ast.Break):
            return [(st, "break", None)]
        if isinstance(s, ast.Continue):
            return [(st, "continue", None)]
        if s.__class__.__name__ == "Match":
            raise AnalysisError(f"{fi.ref}: `match` statement is outside the path grammar")
        # simple statements -------------------------------------------------------
        if isinstance(s, ast.Expr) and isinstance(s.value, ast.Call) and self.inline and depth < self.max_depth:
            callee = self.inline(s.value, st.frames[st.frame])
            if callee is not None:
                return self._inline(s, callee, st, fi, depth)
        st.add("stmt", s)
        if isinstance(s, ast.Assign):
            for t in s.targets:
                self._assign_facts(st, t, s.value)
        elif isinstance(s, ast.AnnAssign):
            self._assign_facts(st, s.target, s.value)
        elif isinstance(s, ast.AugAssign):
            self._assign_facts(st, s.target, None)
        elif isinstance(s, ast.Delete):
            for t in s.targets:
                self._assign_facts(st, t, None)
        return [(st, "next", None)]

    def _finally(self, s, st, oc, v, fi, depth):
        if not s.finalbody:
            return [(st, oc, v)]
        out = []
        for s2, oc2, v2 in self._seq(s.finalbody, st, fi, depth):
            out.append((s2, oc, v) if oc2 == "next" else (s2, oc2, v2))
        return out

    def _inline(self, s, callee: FuncInfo, st, fi, depth):
        caller_frame, caller_facts, caller_loops = st.frame, st.facts, st.loops
        st.add("enter", s, extra=callee)
        new_frame = st.nframes[0]
        st.nframes[0] += 1
        st.frames[new_frame] = callee
        st.frame = new_frame
        st.loops = ()
        st.facts = caller_facts.only_attrs("self")
        out = []
        for s2, oc, v in self._seq(strip_doc(callee.node.body), st, callee, depth + 1):
            if oc in ("break", "continue"):
                raise AnalysisError(f"{callee.ref}: `{oc}` outside a loop")
            s2.frames.setdefault(new_frame, callee)
            callee_facts = s2.facts
            s2.frame = caller_frame
            s2.loops = caller_loops
            # caller's local facts of *this* branch were those at the call
            f = caller_facts.copy()
            f.merge_attrs(callee_facts, "self")
            s2.facts = f
            s2.add("leave", s, extra=callee)
            out.append((s2, "raise", v) if oc == "raise" else (s2, "next", None))
        return out


def enum_paths(fi: FuncInfo, facts: Facts | None = None, inline=None, max_paths: int = 6000) -> list[Path]:
    return PathEnumerator(inline=inline, max_paths=max_paths).run(fi, facts)


def mro_inliner(ix: Index, cls: ClassInfo, names: set[str] | None = None, supers: bool = True):
    """inline callback: ``super().m(...)`` (next definition after the caller's class in the
    MRO of ``cls``) and, for method names in ``names``, ``self.m(...)``"""
    mro = cls.mro()

    def inline(call: ast.Call, caller: FuncInfo) -> FuncInfo | None:
        n = is_super_call(call)
        if n and supers and caller.cls is not None and caller.cls in mro:
            for c in mro[mro.index(caller.cls) + 1 :]:
                for f in c.methods.get(n, []):
                    if not any(d.endswith(".setter") or d.endswith("overload") for d in f.decorator_names):
                        return f
            return None
        n = is_self_call(call)
        if n and names and n in names:
            return cls.find_method(n)
        return None

    return inline


# --------------------------------------------------------------------------- values
@dataclass(frozen=True)
class Val:
    kind: str
    roots: frozenset = frozenset()
    why: str = ""
    is_list: bool = False  # a python list built here (display / comprehension / list())
    elem: "Val | None" = None  # what the elements of such a list are

    @property
    def fresh(self) -> bool:
        return self.kind == FRESH

    @property
    def shares(self) -> bool:
        return self.kind in (VIEW, MAYBE)

    def rooted_at(self, *prefixes: str) -> bool:
        return bool(self.roots) and all(any(r == p or r.startswith(p + ".") or r.startswith(p + "[") for p in prefixes) for r in self.roots)

    def touches(self, *prefixes: str) -> bool:
        return any(r == p or r.startswith(p + ".") or r.startswith(p + "[") for r in self.roots for p in prefixes)

    def show(self) -> str:
        r = ",".join(sorted(self.roots))
        return f"{self.kind}[{r}]" if r else self.kind


def join(a: Val, b: Val) -> Val:
    k = a.kind if _ORDER[a.kind] >= _ORDER[b.kind] else b.kind
    return Val(k, a.roots | b.roots, a.why if _ORDER[a.kind] >= _ORDER[b.kind] else b.why)


def join_all(vals: Iterable[Val]) -> Val:
    vals = list(vals)
    if not vals:
        return Val(UNKNOWN, why="no value")
    out = vals[0]
    for v in vals[1:]:
        out = join(out, v)
    return out


# numpy callables whose result shares memory with the first argument whenever possible
NP_VIEWISH = {
    "asarray", "asanyarray", "ascontiguousarray", "asfortranarray", "asarray_chkfinite", "require",
    "atleast_1d", "atleast_2d", "atleast_3d", "broadcast_to", "broadcast_arrays", "moveaxis", "rollaxis",
    "swapaxes", "transpose", "permute_dims", "matrix_transpose", "reshape", "ravel", "squeeze", "expand_dims",
    "real", "imag", "real_if_close", "diagonal", "split", "array_split", "hsplit", "vsplit", "dsplit",
    "flip", "fliplr", "flipud", "rot90", "frombuffer", "nan_to_num", "lib.stride_tricks.as_strided",
    "lib.stride_tricks.sliding_window_view", "ndarray", "asmatrix", "from_dlpack", "trim_zeros", "unstack", "diag",
}  # fmt: skip
# methods whose result shares memory with the receiver whenever possible
# (``x.conj()`` returns ``x`` itself for real dtypes, unlike the ufunc ``np.conjugate(x)``)
VIEWISH_METHODS = {"view", "reshape", "transpose", "ravel", "squeeze", "swapaxes", "diagonal", "getfield", "newbyteorder", "byteswap", "conj", "conjugate"}
# methods that always allocate their result
FRESH_METHODS = {
    "copy", "flatten", "sum", "mean", "std", "var", "max", "min", "prod", "trace", "round",
    "cumsum", "cumprod", "dot", "tolist", "item", "tobytes", "argmax", "argmin", "all", "any", "nonzero", "repeat",
    "take", "choose", "compress", "__deepcopy__", "__copy__",
}  # fmt: skip
# attributes that are views of the object they are read from
DATA_ATTRS = {"data", "_data_full", "_data_valid", "_data_flat", "__data_full", "real", "imag", "T", "mT", "flat"}
MUTATING_METHODS = {
    "append", "extend", "insert", "pop", "remove", "clear", "sort", "reverse", "update", "setdefault", "popitem",
    "fill", "put", "itemset", "resize", "setflags", "setfield", "partition", "add", "discard",
}  # fmt: skip
NP_WRITES_FIRST_ARG = {"copyto", "put", "put_along_axis", "place", "putmask", "fill_diagonal"}
OUT_KEYWORDS = {"out", "output"}


class Classifier:
    """classifies expressions of one function along a path (see module docstring)"""

    def __init__(self, ix: Index, field_base: ClassInfo | None = None, max_depth: int = 3):
        self.ix = ix
        self.field_base = field_base
        self.max_depth = max_depth
        self.unresolved: set[str] = set()
        # names of methods known to return a field class (one reason each)
        self.class_valued_calls = {"get_class_by_rank"}  # DataFieldBase.get_class_by_rank returns a field class
        # method names whose result a checker has established to be newly allocated
        self.fresh_methods: set[str] = set()

    # -- helpers
    def canon(self, func: ast.AST, fi: FuncInfo) -> str | None:
        c = chain_str(func)
        if c is None or "[]" in c or "()" in c:
            return None
        head, _, rest = c.partition(".")
        tgt = fi.module.imports.get(head)
        if tgt is None:
            return None
        return tgt + ("." + rest if rest else "")

    def _kw(self, call: ast.Call, name: str, pos: int | None = None):
        for k in call.keywords:
            if k.arg == name:
                return k.value
        if pos is not None and len(call.args) > pos and not any(isinstance(a, ast.Starred) for a in call.args[: pos + 1]):
            return call.args[pos]
        return None

    def const_of(self, e: ast.AST | None, path: Path, idx: int, consts: dict, default=_MISSING):
        """constant value of an expression (through local definitions / ``consts``)"""
        if e is None:
            return default
        c = _const(e)
        if c is not _MISSING:
            return c
        if isinstance(e, ast.Name):
            d = path.lookup(e.id, idx)
            if d is None:
                if e.id in consts:
                    return consts[e.id]
                f = path.facts.get(e.id)
                return f["eq"] if "eq" in f else _MISSING
            if d.kind == "assign" and d.value is not None:
                return self.const_of(d.value, path, d.idx, consts)
        return _MISSING

    def is_field_class_expr(self, func: ast.AST, path: Path, idx: int, fi: FuncInfo) -> str | None:
        """name of the kind of field constructor ``func(...)`` is, or None"""
        if isinstance(func, ast.Attribute) and func.attr == "__class__":
            return "<obj>.__class__"
        if isinstance(func, ast.Name):
            if func.id == "cls" and fi.node.args.args and fi.node.args.args[0].arg == "cls":
                return "cls"
            d = path.lookup(func.id, idx)
            if d is not None:
                if d.kind == "assign" and d.value is not None:
                    v = d.value
                    if isinstance(v, ast.Call) and isinstance(v.func, ast.Attribute) and v.func.attr in self.class_valued_calls:
                        return v.func.attr + "()"
                    if isinstance(v, ast.IfExp):
                        a = self.is_field_class_expr(v.body, path, d.idx, fi)
                        b = self.is_field_class_expr(v.orelse, path, d.idx, fi)
                        return a if a and b else None
                    return self.is_field_class_expr(v, path, d.idx, fi)
                if isinstance(d.node, ast.ImportFrom):
                    # class imported inside the function body (``from .scalar import ScalarField``)
                    for a in d.node.names:
                        if (a.asname or a.name) == func.id:
                            mod = _resolve_relative(fi, d.node)
                            r = self.ix.resolve_dotted(f"{mod}.{a.name}") if mod else None
                            if isinstance(r, ClassInfo) and self.field_base is not None and r.is_subclass_of(self.field_base):
                                return r.name
                return None
            r = self.ix.resolve_name(fi.module, func.id)
            if isinstance(r, ClassInfo) and self.field_base is not None and r.is_subclass_of(self.field_base):
                return r.name
            # classes imported inside the function body (``from .scalar import ScalarField``)
            for _, st in path.stmts(frame=None):
                if isinstance(st, ast.ImportFrom):
                    for a in st.names:
                        if (a.asname or a.name) == func.id:
                            mod = _resolve_relative(fi, st)
                            r = self.ix.resolve_dotted(f"{mod}.{a.name}") if mod else None
                            if isinstance(r, ClassInfo) and self.field_base is not None and r.is_subclass_of(self.field_base):
                                return r.name
        return None

    # -- main entry
    def classify(self, e: ast.AST, path: Path, idx: int, fi: FuncInfo, env: dict | None = None, consts: dict | None = None, depth: int = 0) -> Val:
        env = env or {}
        consts = consts or {}
        rec = lambda x, i=idx, en=env: self.classify(x, path, i, fi, en, consts, depth)  # noqa: E731

        if isinstance(e, ast.Constant):
            return Val(FRESH, why="constant")
        if isinstance(e, ast.Name):
            if e.id in env:
                return env[e.id]
            d = path.lookup(e.id, idx)
            if d is None:
                return Val(VIEW, frozenset({e.id}), why=f"name `{e.id}` (parameter or global)")
            if d.kind == "assign" and d.value is not None:
                return rec(d.value, d.idx)
            if d.kind == "aug":
                prev = path.lookup(e.id, d.idx)
                if prev is None:
                    return Val(VIEW, frozenset({e.id}), why=f"`{e.id}` updated in place")
                if prev.kind == "assign" and prev.value is not None:
                    return rec(prev.value, prev.idx)
                return Val(UNKNOWN, why=f"`{e.id}` updated in place after {prev.kind}")
            if d.kind == "iter" and d.value is not None:
                it = rec(d.value, d.idx)
                return _element_of(it)
            if d.kind == "with" and d.value is not None:
                return rec(d.value, d.idx)
            if d.kind == "unpack" and d.value is not None and not isinstance(d.value, (ast.Tuple, ast.List)):
                return _element_of(rec(d.value, d.idx))
            if d.kind == "unpack-iter" and d.value is not None:
                # ``for i, x in enumerate(seq)`` / ``for a, b in zip(p, q)``
                v = d.value
                tgt = d.node
                if isinstance(v, ast.Call) and isinstance(v.func, ast.Name) and isinstance(tgt, (ast.Tuple, ast.List)):
                    names = [t.id if isinstance(t, ast.Name) else None for t in tgt.elts]
                    if v.func.id == "enumerate" and len(names) == 2 and v.args:
                        if names[0] == e.id:
                            return Val(FRESH, why="enumerate counter")
                        return _element_of(rec(v.args[0], d.idx))
                    if v.func.id == "zip" and e.id in names and names.index(e.id) < len(v.args):
                        return _element_of(rec(v.args[names.index(e.id)], d.idx))
                return Val(UNKNOWN, why=f"`{e.id}` unpacked from an iteration")
            return Val(UNKNOWN, why=f"`{e.id}` bound by {d.kind}")
        if isinstance(e, ast.Attribute):
            base = rec(e.value)
            a = norm_attr(e.attr)
            if base.kind == UNKNOWN:
                return Val(UNKNOWN, why=base.why)
            if base.kind == FRESH:
                if a in DATA_ATTRS:
                    return Val(FRESH, why=f".{a} of a fresh object")
                return Val(VIEW, frozenset({f"<fresh>.{a}"}), why=f".{a} of a fresh object")
            return Val(base.kind, frozenset(f"{r}.{a}" for r in base.roots), why=f"attribute .{a}")
        if isinstance(e, ast.Subscript):
            base = rec(e.value)
            if base.kind == UNKNOWN:
                return Val(UNKNOWN, why=base.why)
            if base.is_list:
                if isinstance(e.slice, ast.Slice):
                    return base
                return base.elem if base.elem is not None else Val(UNKNOWN, why="element of an empty list display")
            if base.kind == FRESH:
                return Val(FRESH, why="subscript of a fresh object")
            return Val(base.kind, frozenset(f"{r}[]" for r in base.roots), why="subscript (basic indexing gives a view)")
        if isinstance(e, (ast.BinOp, ast.UnaryOp, ast.Compare, ast.BoolOp, ast.JoinedStr)):
            if isinstance(e, ast.BoolOp):
                return join_all(rec(v) for v in e.values)
            return Val(FRESH, why="arithmetic allocates its result")
        if isinstance(e, ast.IfExp):
            t = path.facts.eval(e.test)
            if t is True:
                return rec(e.body)
            if t is False:
                return rec(e.orelse)
            j = join(rec(e.body), rec(e.orelse))
            a, b = rec(e.body), rec(e.orelse)
            return Val(j.kind, j.roots, j.why, is_list=a.is_list and b.is_list, elem=join(a.elem, b.elem) if a.elem and b.elem else (a.elem or b.elem))
        if isinstance(e, (ast.List, ast.Tuple, ast.Set)):
            elems = [rec(x.value if isinstance(x, ast.Starred) else x) for x in e.elts]
            return Val(FRESH, why="display", is_list=True, elem=join_all(elems) if elems else None)
        if isinstance(e, (ast.ListComp, ast.GeneratorExp, ast.SetComp)):
            en = dict(env)
            for g in e.generators:
                it = self.classify(g.iter, path, idx, fi, en, consts, depth)
                self._bind_comp(g.target, g.iter, it, en, path, idx, fi, consts, depth)
            el = self.classify(e.elt, path, idx, fi, en, consts, depth)
            return Val(FRESH, why="comprehension", is_list=True, elem=el)
        if isinstance(e, ast.Dict):
            return Val(FRESH, why="display")
        if isinstance(e, ast.Starred):
            return rec(e.value)
        if isinstance(e, ast.NamedExpr):
            return rec(e.value)
        if isinstance(e, ast.Lambda):
            return Val(FRESH, why="lambda")
        if isinstance(e, ast.Call):
            return self._call(e, path, idx, fi, env, consts, depth)
        return Val(UNKNOWN, why=f"expression {type(e).__name__}")

    def _bind_comp(self, target, iter_expr, it: Val, en: dict, path, idx, fi, consts, depth) -> None:
        if isinstance(target, ast.Name):
            en[target.id] = _element_of(it)
            return
        if isinstance(target, (ast.Tuple, ast.List)) and isinstance(iter_expr, ast.Call) and isinstance(iter_expr.func, ast.Name):
            names = [t.id if isinstance(t, ast.Name) else None for t in target.elts]
            if iter_expr.func.id == "enumerate" and len(names) == 2 and iter_expr.args:
                if names[0]:
                    en[names[0]] = Val(FRESH, why="enumerate counter")
                if names[1]:
                    en[names[1]] = _element_of(self.classify(iter_expr.args[0], path, idx, fi, en, consts, depth))
                return
            if iter_expr.func.id == "zip":
                for k, n in enumerate(names):
                    if n and k < len(iter_expr.args):
                        en[n] = _element_of(self.classify(iter_expr.args[k], path, idx, fi, en, consts, depth))
                return
        for n in bound_names(target):
            en[n] = Val(UNKNOWN, why="comprehension target")

    def _call(self, e: ast.Call, path: Path, idx: int, fi: FuncInfo, env, consts, depth) -> Val:
        rec = lambda x: self.classify(x, path, idx, fi, env, consts, depth)  # noqa: E731
        # an explicit out= argument is what the call returns (numpy protocol)
        for k in e.keywords:
            if k.arg in OUT_KEYWORDS and _const(k.value) is _MISSING:
                return rec(k.value)
        cn = self.canon(e.func, fi)
        if cn and (cn == "numpy" or cn.startswith("numpy.")):
            name = cn[len("numpy.") :]
            first = e.args[0] if e.args and not isinstance(e.args[0], ast.Starred) else None
            if name in ("array", "asarray", "asanyarray"):
                if first is None:
                    first = self._kw(e, "object") or self._kw(e, "a")
                src = rec(first) if first is not None else Val(UNKNOWN, why="np.array without argument")
                if src.is_list or src.kind == FRESH:
                    return Val(FRESH, why=f"np.{name} of a freshly built object")
                if name == "array":
                    cp = self._kw(e, "copy")
                    c = True if cp is None else self.const_of(cp, path, idx, consts)
                    if c is True:
                        return Val(FRESH, why="np.array(..., copy=True)")
                    if src.kind == UNKNOWN:
                        return src
                    return Val(MAYBE, src.roots, why=f"np.array(..., copy={'?' if c is _MISSING else c}) copies only if needed")
                if src.kind == UNKNOWN:
                    return src
                return Val(MAYBE, src.roots, why=f"np.{name} copies only if needed")
            if name in NP_VIEWISH:
                src = rec(first) if first is not None else Val(UNKNOWN, why=f"np.{name} without positional argument")
                if src.kind in (FRESH, UNKNOWN):
                    return Val(src.kind, why=src.why)
                return Val(MAYBE, src.roots, why=f"np.{name} returns a view whenever possible")
            if name in ("may_share_memory", "shares_memory", "isscalar", "iscomplexobj", "ndim", "shape", "size", "result_type", "dtype"):
                return Val(FRESH, why=f"np.{name} returns a scalar/descriptor")
            if "." in name and not name.startswith(("linalg.", "random.", "fft.")):
                self.unresolved.add(cn)
                return Val(UNKNOWN, why=f"result of np.{name}(...) (sub-module function that is not classified)")
            return Val(FRESH, why=f"np.{name} allocates its result")
        # builtins
        if isinstance(e.func, ast.Name) and path.lookup(e.func.id, idx) is None and e.func.id not in env:
            b = e.func.id
            if b in ("list", "tuple", "sorted", "set", "frozenset", "reversed") and fi.module.imports.get(b) is None:
                if not e.args:
                    return Val(FRESH, why=f"{b}()", is_list=True, elem=None)
                src = rec(e.args[0])
                return Val(FRESH, why=f"{b}(...)", is_list=True, elem=_element_of(src))
            if b in ("len", "int", "float", "complex", "bool", "str", "abs", "sum", "min", "max", "range", "isinstance", "hasattr", "id", "repr", "round", "divmod", "slice", "dict", "enumerate", "zip", "iter", "type", "callable", "any", "all"):
                return Val(FRESH, why=f"builtin {b}()")
            if b == "getattr" and len(e.args) >= 2 and isinstance(e.args[1], ast.Constant):
                base = rec(e.args[0])
                if base.shares:
                    return Val(base.kind, frozenset(f"{r}.{norm_attr(str(e.args[1].value))}" for r in base.roots), why="getattr")
                return Val(UNKNOWN, why="getattr")
        # field constructors
        fk = self.is_field_class_expr(e.func, path, idx, fi)
        if fk is not None:
            wg = self._kw(e, "with_ghost_cells")
            wgc = False if wg is None else self.const_of(wg, path, idx, consts)
            cf = self._kw(e, "copy_fields")
            if wgc is False:
                return Val(FRESH, why=f"field constructor {fk}(...) without with_ghost_cells allocates its own array")
            data = self._kw(e, "data", 1)
            if data is None:
                return Val(UNKNOWN, why=f"{fk}(..., with_ghost_cells=...) without data")
            src = rec(data)
            if wgc is True:
                return Val(src.kind, src.roots, why=f"{fk}(..., with_ghost_cells=True) adopts its data argument ({src.why})")
            return Val(MAYBE if src.shares else src.kind, src.roots, why=f"{fk}(..., with_ghost_cells=<non-constant>)")
        # method calls
        if isinstance(e.func, ast.Attribute):
            m = e.func.attr
            if m == "copy" or m in FRESH_METHODS or m in self.fresh_methods:
                return Val(FRESH, why=f".{m}() allocates its result")
            if m == "astype":
                cp = self._kw(e, "copy")
                c = True if cp is None else self.const_of(cp, path, idx, consts)
                if c is True:
                    return Val(FRESH, why=".astype() copies by default")
                src = rec(e.func.value)
                return Val(MAYBE if src.shares else src.kind, src.roots, why=".astype(copy=False)")
            if m in VIEWISH_METHODS:
                src = rec(e.func.value)
                if src.kind in (FRESH, UNKNOWN):
                    return Val(src.kind, why=src.why)
                return Val(VIEW if m == "view" else MAYBE, src.roots, why=f".{m}() shares memory with its receiver")
        # resolvable module-level functions: summary
        if depth < self.max_depth:
            target = None
            cs = chain_str(e.func)
            if cs and "[]" not in cs and "()" not in cs:
                r = self.ix.resolve_name(fi.module, cs)
                if isinstance(r, FuncInfo) and r.cls is None:
                    target = r
            if target is not None:
                return self.summary(target, e, path, idx, fi, env, consts, depth)
        cs = chain_str(e.func) or type(e.func).__name__
        self.unresolved.add(cs)
        return Val(UNKNOWN, why=f"result of unresolved call {cs}(...)")

    def summary(self, callee: FuncInfo, call: ast.Call, path: Path, idx: int, fi: FuncInfo, env, consts, depth) -> Val:
        """classify what ``callee`` returns for this call: its return expressions are
        classified with parameters bound to the call's constant arguments; roots that
        are parameters are replaced by the classification of the actual arguments"""
        params = param_names(callee.node)
        a = callee.node.args
        actual: dict[str, ast.AST] = {}
        pos = [p.arg for p in a.posonlyargs + a.args]
        for k, arg in enumerate(call.args):
            if isinstance(arg, ast.Starred):
                return Val(UNKNOWN, why=f"call of {callee.qualname} with *args")
            if k < len(pos):
                actual[pos[k]] = arg
        for kw in call.keywords:
            if kw.arg is None:
                return Val(UNKNOWN, why=f"call of {callee.qualname} with **kwargs")
            actual[kw.arg] = kw.value
        # defaults
        defaults: dict[str, ast.AST] = {}
        for p, d in zip(reversed(pos), reversed(a.defaults)):
            defaults[p] = d
        for p, d in zip(a.kwonlyargs, a.kw_defaults):
            if d is not None:
                defaults[p.arg] = d
        cconsts = {}
        facts = Facts()
        for p in params:
            if p in actual:
                c = self.const_of(actual[p], path, idx, consts)
            elif p in defaults:
                c = _const(defaults[p])
            else:
                c = _MISSING
            if c is not _MISSING:
                cconsts[p] = c
                facts.set_eq(p, c)
        vals = []
        for cp in enum_paths(callee, facts):
            if cp.exit != "return" or cp.value is None:
                continue
            v = self.classify(cp.value, cp, len(cp.evs), callee, None, cconsts, depth + 1)
            if v.kind in (VIEW, MAYBE):
                roots = set()
                kind = v.kind
                for r in v.roots:
                    head = re.split(r"[.\[]", r, maxsplit=1)[0]
                    if head in actual:
                        av = self.classify(actual[head], path, idx, fi, env, consts, depth)
                        if av.kind == UNKNOWN:
                            return av
                        if av.kind == FRESH or av.is_list:
                            continue
                        roots |= {ar + r[len(head) :] for ar in av.roots}
                    elif head in params:
                        continue  # default value
                    else:
                        roots.add(f"{callee.qualname}:{r}")
                v = Val(kind if roots else FRESH, frozenset(roots), why=f"{callee.qualname}(...): {v.why}")
            else:
                v = Val(v.kind, v.roots, why=f"{callee.qualname}(...): {v.why}")
            vals.append(v)
        if not vals:
            return Val(UNKNOWN, why=f"{callee.qualname} has no return path")
        return join_all(vals)


def _resolve_relative(fi: FuncInfo, st: ast.ImportFrom) -> str | None:
    m = fi.module
    is_pkg = m.path.name == "__init__.py"
    pkg_parts = m.modname.split(".") if is_pkg else m.modname.split(".")[:-1]
    if st.level:
        base = pkg_parts[: len(pkg_parts) - (st.level - 1)]
        return ".".join(base + ([st.module] if st.module else []))
    return st.module


def _element_of(it: Val) -> Val:
    if it.is_list:
        return it.elem if it.elem is not None else Val(UNKNOWN, why="element of an empty list")
    if it.kind == UNKNOWN:
        return it
    if it.kind == FRESH:
        return Val(FRESH, why="element of a fresh array")
    return Val(it.kind, frozenset(f"{r}[]" for r in it.roots), why="element of " + "/".join(sorted(it.roots)))


# --------------------------------------------------------------------------- effects
@dataclass(eq=False)
class Write:
    kind: str  # rebind | store | aug-attr | aug-name | out | mutcall | del
    chain: str  # syntactic access path of the object written into (attribute included for rebind)
    val: Val  # classification of the object written into (for rebind: of the *owner* object)
    node: ast.AST
    idx: int
    attr: str | None = None  # re-bound attribute / called method
    value: ast.AST | None = None  # stored value, if syntactically available

    @property
    def local_only(self) -> bool:
        """the write cannot be observed through anything but objects allocated on this path"""
        return self.val.kind == FRESH

    def show(self) -> str:
        return f"{self.kind} {self.chain} -> {self.val.show()}"


def _calls_in(node: ast.AST) -> Iterable[ast.Call]:
    """calls evaluated by a statement (not those inside nested defs / lambdas)"""
    stack = [node]
    while stack:
        n = stack.pop()
        if isinstance(n, (ast.FunctionDef, ast.AsyncFunctionDef, ast.ClassDef, ast.Lambda)) and n is not node:
            continue
        if isinstance(n, ast.Call):
            yield n
        stack.extend(ast.iter_child_nodes(n))


def writes_of(path: Path, clf: Classifier, fi: FuncInfo, frame: int | None = 0) -> list[Write]:
    out: list[Write] = []

    def target(t: ast.AST, idx: int, aug: bool, value: ast.AST | None) -> None:
        if isinstance(t, (ast.Tuple, ast.List)):
            vals = value.elts if isinstance(value, (ast.Tuple, ast.List)) and len(value.elts) == len(t.elts) else [None] * len(t.elts)
            for x, v in zip(t.elts, vals):
                target(x, idx, aug, v)
        elif isinstance(t, ast.Starred):
            target(t.value, idx, aug, None)
        elif isinstance(t, ast.Attribute):
            owner = clf.classify(t.value, path, idx, fi_of(idx))
            out.append(Write("aug-attr" if aug else "rebind", chain_str(t) or "?", owner, t, idx, attr=norm_attr(t.attr), value=value))
        elif isinstance(t, ast.Subscript):
            obj = clf.classify(t.value, path, idx, fi_of(idx))
            out.append(Write("store", chain_str(t.value) or "?", obj, t, idx, value=value))
        elif isinstance(t, ast.Name) and aug:
            obj = clf.classify(t, path, idx, fi_of(idx))
            if obj.kind != FRESH:
                out.append(Write("aug-name", t.id, obj, t, idx, value=value))

    def fi_of(idx: int) -> FuncInfo:
        return path.frames.get(path.evs[idx].frame, fi)

    for idx, e in enumerate(path.evs):
        if frame is not None and e.frame != frame:
            continue
        nodes: list[ast.AST] = []
        if e.kind in ("stmt", "return", "raise"):
            s = e.node
            if isinstance(s, ast.Assign):
                for t in s.targets:
                    target(t, idx, False, s.value)
            elif isinstance(s, ast.AnnAssign) and s.value is not None:
                target(s.target, idx, False, s.value)
            elif isinstance(s, ast.AugAssign):
                target(s.target, idx, True, s.value)
            elif isinstance(s, ast.Delete):
                for t in s.targets:
                    if isinstance(t, (ast.Attribute, ast.Subscript)):
                        obj = clf.classify(t.value, path, idx, fi_of(idx))
                        out.append(Write("del", chain_str(t) or "?", obj, t, idx))
            if isinstance(s, (ast.FunctionDef, ast.AsyncFunctionDef, ast.ClassDef)):
                continue
            nodes = [s]
        elif e.kind == "decide" and isinstance(e.node, ast.expr):
            nodes = [e.node]
        elif e.kind == "bind" and isinstance(e.extra, tuple) and isinstance(e.extra[1], ast.AST):
            nodes = [e.extra[1]]
        for n in nodes:
            for c in _calls_in(n):
                f = fi_of(idx)
                for k in c.keywords:
                    if k.arg in OUT_KEYWORDS and _const(k.value) is _MISSING:
                        v = clf.classify(k.value, path, idx, f)
                        out.append(Write("out", chain_str(k.value) or "?", v, c, idx, attr=k.arg))
                if isinstance(c.func, ast.Attribute) and c.func.attr in MUTATING_METHODS:
                    # ``x.copy()``-style calls are not mutating; only the listed methods are
                    obj = clf.classify(c.func.value, path, idx, f)
                    out.append(Write("mutcall", chain_str(c.func.value) or "?", obj, c, idx, attr=c.func.attr, value=c.args[0] if c.args else None))
                cn = clf.canon(c.func, f)
                if cn and cn.startswith("numpy.") and cn[len("numpy.") :] in NP_WRITES_FIRST_ARG and c.args:
                    obj = clf.classify(c.args[0], path, idx, f)
                    out.append(Write("out", chain_str(c.args[0]) or "?", obj, c, idx, attr=cn))
                if isinstance(c.func, ast.Name) and c.func.id in ("setattr", "delattr") and c.args:
                    obj = clf.classify(c.args[0], path, idx, f)
                    a = c.args[1].value if len(c.args) > 1 and isinstance(c.args[1], ast.Constant) else "?"
                    out.append(Write("rebind", f"{chain_str(c.args[0]) or '?'}.{norm_attr(str(a))}", obj, c, idx, attr=norm_attr(str(a)), value=c.args[2] if len(c.args) > 2 else None))
    out.sort(key=lambda w: w.idx)
    return out


# --------------------------------------------------------------------------- misc helpers
def expand(e: ast.AST, path: Path, idx: int, depth: int = 0, max_depth: int = 6) -> ast.AST:
    """copy of an expression with local names replaced by their (single-assignment)
    definitions on this path, so that hoisted sub-expressions compare equal"""

    class T(ast.NodeTransformer):
        def visit_Name(self, n: ast.Name):
            if depth >= max_depth:
                return n
            d = path.lookup(n.id, idx)
            if d is not None and d.kind == "assign" and d.value is not None:
                return expand(d.value, path, d.idx, depth + 1, max_depth)
            return n

        def visit_Call(self, n: ast.Call):
            n = self.generic_visit(n)
            if isinstance(n.func, ast.Name) and n.func.id == "slice" and not n.keywords and 1 <= len(n.args) <= 3:
                a = list(n.args)
                none = lambda x: None if isinstance(x, ast.Constant) and x.value is None else x  # noqa: E731
                if len(a) == 1:
                    return ast.Slice(lower=None, upper=none(a[0]), step=None)
                return ast.Slice(lower=none(a[0]), upper=none(a[1]), step=none(a[2]) if len(a) == 3 else None)
            return n

    import copy

    return T().visit(copy.deepcopy(e))


def mentions(e: ast.AST, path: Path, idx: int, name: str) -> bool:
    """does the value of ``e`` derive (through local definitions) from parameter ``name``"""
    seen = set()

    def walk(x: ast.AST, i: int, depth: int) -> bool:
        for n in ast.walk(x):
            if isinstance(n, ast.Name) and isinstance(n.ctx, ast.Load):
                d = path.lookup(n.id, i)
                if d is None or d.kind == "aug":
                    # (an in-place update keeps the identity of the previous binding)
                    if n.id == name:
                        return True
                    if d is None:
                        continue
                if d.value is not None and (id(d.value), d.idx) not in seen and depth < 8:
                    seen.add((id(d.value), d.idx))
                    if walk(d.value, d.idx, depth + 1):
                        return True
                if d.kind == "aug":
                    p = path.lookup(n.id, d.idx)
                    if p is None and n.id == name:
                        return True
                    if p is not None and p.value is not None and walk(p.value, p.idx, depth + 1):
                        return True
        return False

    return walk(e, idx, 0)


def stable_ref(f: FuncInfo, role: str | None = None) -> str:
    """``file::qualname`` without the positional ``#n`` suffix the index gives to several
    definitions of one name (getter/setter/overloads); ``role`` tells them apart"""
    q = re.sub(r"#\d+", "", f.qualname)
    if role is None:
        decs = f.decorator_names
        if any(d.endswith(".setter") for d in decs):
            role = "setter"
        elif any(d == "property" for d in decs):
            role = "getter"
    return f"{f.module.rel}::{q}" + (f"[{role}]" if role else "")


def pick_def(ix: Index, rel: str, qualname: str, role: str) -> FuncInfo:
    """the getter / setter / plain definition among several sharing a qualified name
    (never addressed through the positional ``#2`` suffix); role: getter|setter|plain"""
    cands = []
    for f in ix.funcs(rel, qualname):
        decs = f.decorator_names
        if any(d.endswith("overload") for d in decs):
            continue
        is_setter = any(d.endswith(".setter") for d in decs)
        is_getter = any(d == "property" or d.endswith("cached_property") for d in decs)
        if role == "setter" and is_setter or role == "getter" and is_getter or role == "plain" and not is_setter and not is_getter:
            cands.append(f)
    if len(cands) != 1:
        raise AnalysisError(f"anchor vanished: {rel}::{qualname} ({role}); found {len(cands)} candidate(s)")
    return cands[0]


def all_defs(ix: Index, rel_prefixes: Iterable[str] | None = None) -> list[FuncInfo]:
    out = []
    for m in ix.modules.values():
        if rel_prefixes is None or any(m.rel.startswith(p) for p in rel_prefixes):
            out.extend(m.functions.values())
    return out


def attribute_stores(fn: ast.AST) -> Iterable[tuple[ast.Attribute, str]]:
    """(node, kind) for every attribute that is re-bound / deleted in a function body,
    including nested functions; kind: rebind | aug | del"""
    for n in ast.walk(fn):
        if isinstance(n, ast.Attribute):
            if isinstance(n.ctx, ast.Store):
                yield n, "rebind"
            elif isinstance(n.ctx, ast.Del):
                yield n, "del"
        if isinstance(n, ast.Call) and isinstance(n.func, ast.Name) and n.func.id in ("setattr", "delattr", "object.__setattr__"):
            if len(n.args) > 1 and isinstance(n.args[1], ast.Constant) and isinstance(n.args[1].value, str):
                fake = ast.Attribute(value=n.args[0], attr=n.args[1].value, ctx=ast.Store())
                ast.copy_location(fake, n)
                yield fake, "rebind"


def thorough_selftest(rep) -> None:
    """thorough tier: run the checker's own mutation corpus (``mutants/<pid>.json``) on
    scratch copies of the analysed tree; a mutant that does not behave as recorded makes the
    checker itself unreliable -> analysis error (exit 2), never a pass"""
    import os

    if rep.tier != "thorough" or os.environ.get("PDELINT_SELFTEST"):
        return
    from .core import load_known

    known = {k["key"] for k in load_known() if k.get("property") == rep.pid and k.get("status") == "known"}
    if any(f.key not in known for f in rep.findings):
        rep.note("mutation self-test skipped: the analysed tree has findings that are not listed as known, so behaviour-preserving twins cannot exit 0")
        return
    from .selftest import run_selftest

    res = run_selftest(rep.pid, jobs=max(1, (os.cpu_count() or 2) // 2))
    bad = [r for r in res if not r["ok"]]
    for r in res:
        rep.oblige(f"selftest:{r['name']}", r["ok"], r.get("why") or r.get("expect"))
    rep.extra["selftest"] = {"mutants": len(res), "as_expected": len(res) - len(bad), "fire": sum(1 for r in res if r.get("expect") == "fire"), "silent": sum(1 for r in res if r.get("expect") == "silent")}
    rep.floor("mutants in the self-test corpus", len(res), 9)
    if bad:
        raise AnalysisError("mutation self-test failed: " + "; ".join(f"{r['name']}: {r.get('why')}" for r in bad[:5]))

"""E1 -- formula extractor.

A syntax-directed abstract interpreter for the small, closed-form numerical
fragments of py-pde (operator factories and their kernels, boundary formulas,
stepping closures, coordinate maps).  The abstract domain is "sympy term over
named input cells / symbols".  Branches are followed only when their condition is a
*configuration constant* (known Python value) or is decided by an explicit
assumption callback supplied by the rule; any other branch, and any syntax outside
the grammar below, raises :class:`Unsupported` (-> ANALYSIS-ERROR, never a verdict).

Nothing from the analysed repository is imported or run: functions are interpreted
from their syntax trees, resolved through :mod:`pdelint.index`.
"""

from __future__ import annotations

import ast
import operator as _op
from dataclasses import dataclass, field
from typing import Any, Callable

import sympy as sp

from .core import AnalysisError
from .index import ClassInfo, FuncInfo, Index, ModuleInfo, dotted, strip_doc


class Unsupported(AnalysisError):
    pass


class RaisedInCode(Exception):
    """the interpreted code executes a ``raise`` on the followed path"""

    def __init__(self, exc_name: str, node: ast.AST):
        super().__init__(exc_name)
        self.exc_name = exc_name
        self.node = node


class _Return(Exception):
    def __init__(self, value):
        self.value = value


class _Break(Exception):
    pass


class _Continue(Exception):
    pass


# =============================================================================
# value domain
# =============================================================================
ALL = sp.Symbol("ALL")  # index placeholder for a full slice ``:``


def num(x):
    """normalise python numbers to exact sympy/python values"""
    if isinstance(x, bool):
        return x
    if isinstance(x, int):
        return x
    if isinstance(x, float):
        if x != x or x in (float("inf"), float("-inf")):
            return sp.oo if x > 0 else (-sp.oo if x < 0 else sp.nan)
        return sp.Rational(repr(x))
    return x


def is_concrete(x) -> bool:
    if isinstance(x, (bool, int, str, type(None))):
        return True
    if isinstance(x, sp.Basic):
        return bool(x.is_number) and not x.free_symbols
    if isinstance(x, (tuple, list)):
        return all(is_concrete(v) for v in x)
    return False


def to_py(x):
    """concrete sympy number -> python int where possible"""
    if isinstance(x, sp.Integer):
        return int(x)
    if isinstance(x, sp.Basic) and x.is_Integer:
        return int(x)
    return x


class Opaque:
    """a value the analysis does not model (loggers, back-end objects...).  Attribute
    access and calls yield further opaque values; using one in arithmetic or in a
    branch is an analysis error."""

    def __init__(self, name: str):
        self.name = name

    def __repr__(self):
        return f"<opaque {self.name}>"


class Model:
    """an object with an explicit attribute table (grid model, bc model, config...).
    Unknown attributes fall back to the class in the index (methods are interpreted
    from source); anything else is an analysis error."""

    def __init__(self, name: str, attrs: dict | None = None, cls: ClassInfo | None = None, strict: bool = True):
        self._name = name
        self._attrs = dict(attrs or {})
        self._cls = cls
        self._strict = strict

    def __repr__(self):
        return f"<model {self._name}>"


@dataclass(eq=False)
class Closure:
    node: ast.FunctionDef | ast.Lambda
    env: "Env"
    info: FuncInfo | None = None
    bound_self: Any = None
    decorators: list = field(default_factory=list)  # [(name, args, kwargs)]
    module: ModuleInfo | None = None
    qualname: str = ""

    def __repr__(self):
        return f"<closure {self.qualname or getattr(self.node, 'name', 'lambda')}>"


class SuperProxy:
    def __init__(self, obj, cls):
        self.obj, self.cls = obj, cls


class Partial:
    def __init__(self, func, args, kwargs):
        self.func, self.args, self.kwargs = func, tuple(args), dict(kwargs)


class ClassRef:
    def __init__(self, info: ClassInfo):
        self.info = info

    def __repr__(self):
        return f"<class {self.info.name}>"


def _vec_depth(v) -> int:
    d = 0
    while isinstance(v, Vec) and v.items:
        d += 1
        v = v.items[0]
    return d


class Vec:
    """numpy array of *known* length (possibly nested) with element-wise arithmetic"""

    def __init__(self, items):
        self.items = list(items)

    def __len__(self):
        return len(self.items)

    def __iter__(self):
        return iter(self.items)

    def __repr__(self):
        return f"Vec({self.items})"

    def map(self, f):
        return Vec([v.map(f) if isinstance(v, Vec) else f(v) for v in self.items])

    @property
    def shape(self):
        if self.items and isinstance(self.items[0], Vec):
            return (len(self.items),) + self.items[0].shape
        return (len(self.items),)


class IdxArr:
    """1-d array of symbolic length ``n`` whose k-th entry is ``expr(k)``"""

    K = sp.Symbol("_k", integer=True)

    def __init__(self, expr, n):
        self.expr = sp.sympify(expr)
        self.n = n

    def at(self, k):
        if isinstance(k, int) and k < 0:
            k = self.n + k
        return self.expr.subs(self.K, k)

    def __repr__(self):
        return f"IdxArr({self.expr}, n={self.n})"


AT = sp.Function("at")  # at(expr, *index): element of a symbol that stands for an array
MASKED = sp.Function("masked")  # masked(new, mask, old): `a[mask] = new` applied to `old`
UNRAVEL = sp.Function("unravel")  # unravel(k, j, *dims): j-th row-major digit of k for shape dims
RNG = sp.Function("rng")  # rng(lo, hi): half-open index range lo <= k < hi of one axis


class SymArray:
    """cell-indexed symbolic array (view).

    *Kernel mode* (``shape is None``): rank unknown; ``idx`` holds the indices fixed so
    far, ``ALL`` marks an open slice slot, further indices are appended.

    *Shaped mode* (``shape`` given): every axis of the base array has a slot, either
    ``("fix", index)`` or ``("open", lo, hi)`` (absolute bounds, hi exclusive).  Ellipsis,
    negative indices and slices are resolved against the shape, so that a view of a
    view (``data_full[..., 1:-1][..., index]``) yields absolute indices.
    """

    def __init__(self, base: str, idx: tuple = (), interp: "Interp | None" = None, shape: tuple | None = None, slots: list | None = None):
        self.base = base
        self.interp = interp
        self.shape = tuple(shape) if shape is not None else None
        if self.shape is not None and slots is None:
            slots = [("open", 0, s) for s in self.shape]
        self.slots = slots
        self._idx = tuple(idx)

    @property
    def idx(self) -> tuple:
        if self.slots is None:
            return self._idx
        out = []
        for k, s in enumerate(self.slots):
            if s[0] == "fix":
                out.append(s[1])
            else:
                lo, hi = s[1], s[2]
                full = sp.simplify(sp.sympify(lo)) == 0 and sp.simplify(sp.sympify(hi) - sp.sympify(self.shape[k])) == 0
                out.append(ALL if full else RNG(lo, hi))
        return tuple(out)

    def __repr__(self):
        return f"{self.base}{list(self.idx)}"

    @property
    def open_extents(self) -> tuple:
        return tuple(s[2] - s[1] for s in self.slots if s[0] == "open") if self.slots is not None else ()

    def sub(self, key: tuple) -> "SymArray":
        if self.slots is None:
            key = list(key)
            out = []
            for s in self._idx:
                if s is ALL and key:
                    out.append(key.pop(0))
                else:
                    out.append(s)
            out.extend(key)
            return SymArray(self.base, tuple(out), self.interp)
        key = [k for k in key if k is not None]  # np.newaxis adds no base axis
        n_open = sum(1 for s in self.slots if s[0] == "open")
        n_expl = sum(1 for k in key if k is not Ellipsis)
        if n_expl > n_open:
            raise Unsupported(f"too many indices for {self!r}: {key}")
        if Ellipsis in key:
            e = key.index(Ellipsis)
            key = key[:e] + [ALL] * (n_open - n_expl) + [k for k in key[e + 1 :] if k is not Ellipsis]
        key = list(key)
        slots = []
        for s in self.slots:
            if s[0] == "fix" or not key:
                slots.append(s)
                continue
            k = key.pop(0)
            lo, hi = s[1], s[2]
            if k is ALL:
                slots.append(s)
            elif isinstance(k, tuple) and k and k[0] == "slice":
                a, b, st = k[1], k[2], k[3]
                if st not in (None, 1):
                    raise Unsupported("strided slice of a symbolic array")
                nlo = lo if a is None else (hi + a if _is_neg(a) else lo + a)
                nhi = hi if b is None else (hi + b if _is_neg(b) else lo + b)
                slots.append(("open", nlo, nhi))
            else:
                kk = sp.sympify(k.cell() if isinstance(k, SymArray) else k)
                slots.append(("fix", hi + kk if _is_neg(kk) else lo + kk))
        return SymArray(self.base, (), self.interp, shape=self.shape, slots=slots)

    def cell(self):
        idx = tuple(i for i in self.idx)
        if self.slots is None:
            while idx and idx[-1] is ALL:  # trailing open slots carry no information
                idx = idx[:-1]
        return sp.Function(self.base)(*idx) if idx else sp.Symbol(self.base)


def _is_neg(x) -> bool:
    x = sp.sympify(x)
    return bool(x.is_number and x < 0)


class WholeArr:
    """array handled with element-wise *value* semantics (time steppers, pde rhs):
    a mutable box holding the current symbolic value of every entry."""

    def __init__(self, name: str, val=None):
        self.name = name
        self.val = sp.Symbol(name) if val is None else val
        self.writes = 0

    def __repr__(self):
        return f"<whole {self.name}={self.val}>"


@dataclass
class Store:
    base: str
    idx: tuple
    value: Any
    aug: str | None  # None for '=', '+' for '+=' ...
    line: int
    loops: tuple  # LoopInfo active at the store
    order: int
    func: str = ""


@dataclass(eq=False)
class LoopInfo:
    var: str
    sym: Any
    lo: Any
    hi: Any
    kind: str  # 'range' | 'prange'
    line: int
    func: str = ""
    first_event: dict = field(default_factory=dict)  # name -> 'r'|'w'
    written: set = field(default_factory=set)
    carried: set = field(default_factory=set)


class Env:
    def __init__(self, parent: "Env | None" = None, module: ModuleInfo | None = None):
        self.vars: dict[str, Any] = {}
        self.parent = parent
        self.module = module or (parent.module if parent else None)

    def lookup(self, name: str):
        e: Env | None = self
        while e is not None:
            if name in e.vars:
                return e.vars[name]
            e = e.parent
        raise KeyError(name)

    def has(self, name: str) -> bool:
        try:
            self.lookup(name)
            return True
        except KeyError:
            return False

    def set(self, name: str, value) -> None:
        self.vars[name] = value


# =============================================================================
# interpreter
# =============================================================================
_BIN = {
    ast.Add: _op.add,
    ast.Sub: _op.sub,
    ast.Mult: _op.mul,
    ast.Pow: _op.pow,
}


class Interp:
    def __init__(self, index: Index, *, decide: Callable | None = None, overrides: dict | None = None):
        self.index = index
        self.decide = decide  # callback(cond_value, node) -> bool | None
        self.overrides = overrides or {}  # dotted repo name or local name -> python callable/value
        self.stores: list[Store] = []
        self.loops: list[LoopInfo] = []
        self.all_loops: list[LoopInfo] = []
        self.asserts: list[tuple[Any, ast.AST]] = []
        self.calls_log: list[tuple[str, tuple, dict]] = []  # uninterpreted calls
        self.store_map: dict[tuple, Any] = {}
        self._order = 0
        self.func_stack: list[str] = []
        self.closure_decorators: dict[str, list] = {}
        self.reads: list[tuple] = []  # (base, idx, loops, func) of every subscript read of a symbolic array
        self.div_log = None  # list collecting (divisor, line) of every symbolic division when set
        self.while_once = None  # callback(node) -> bool: interpret exactly one iteration
        self.while_iterations: list = []
        self.while_exit = None
        self.loop_cases = None  # callback(var, lo, hi, node) -> [(label, value)] | None
        self.case_stack: list[tuple[str, str]] = []
        self.depth = 0
        self.builtins = self._make_builtins()
        self.np = self._make_numpy()
        self.math = self._make_math()

    # ------------------------------------------------------------------ errors
    def fail(self, node: ast.AST | None, msg: str):
        where = ""
        if node is not None and hasattr(node, "lineno"):
            where = f" at line {node.lineno}: `{ast.unparse(node)[:80]}`"
        fn = self.func_stack[-1] if self.func_stack else "?"
        raise Unsupported(f"{msg}{where} (in {fn})")

    # ------------------------------------------------------------------ modules
    def module_env(self, m: ModuleInfo) -> Env:
        env = Env(module=m)
        env.vars["__module__"] = m
        return env

    def global_lookup(self, m: ModuleInfo, name: str, node=None):
        if name in self.overrides:
            return self.overrides[name]
        if name in self.builtins:
            return self.builtins[name]
        if name in m.functions:
            fi = m.functions[name]
            return self.make_closure(fi, self.module_env(m))
        if name in m.classes:
            return ClassRef(m.classes[name])
        if name in m.imports:
            target = m.imports[name]
            if target in self.overrides:
                return self.overrides[target]
            top = target.split(".")[0]
            if target == "numpy":
                return self.np
            if target == "math":
                return self.math
            if target == "numba":
                return self._numba_module()
            if target in ("functools",):
                return {"partial": lambda f, *a, **k: Partial(f, a, k)}
            if top != self.index.package:
                last = target.split(".")[-1]
                if target.startswith("typing") or target.startswith("collections.abc"):
                    return Opaque(target)
                if target in ("numba.extending.register_jitable", "numba.extending.overload", "numba.register_jitable"):
                    return self._decorator_passthrough(last)
                return Opaque(target)
            r = self.index.resolve_dotted(target)
            if isinstance(r, FuncInfo):
                return self.make_closure(r, self.module_env(r.module))
            if isinstance(r, ClassInfo):
                return ClassRef(r)
            if isinstance(r, ModuleInfo):
                return r
            if isinstance(r, tuple) and r[0] == "assign":
                _, mod, expr = r
                key = f"{mod.modname}.{target.split('.')[-1]}"
                if key in self.overrides:
                    return self.overrides[key]
                try:
                    return self.eval(expr, self.module_env(mod))
                except Unsupported:
                    return Opaque(target)
            return Opaque(target)
        if name in m.assigns:
            return self.eval(m.assigns[name], self.module_env(m))
        self.fail(node, f"unknown global name `{name}` in {m.rel}")

    def _decorator_passthrough(self, name):
        def deco(*args, **kwargs):
            if len(args) == 1 and isinstance(args[0], Closure) and not kwargs:
                args[0].decorators.append((name, (), {}))
                return args[0]

            def inner(f):
                if isinstance(f, Closure):
                    f.decorators.append((name, args, kwargs))
                return f

            return inner

        return deco

    def _numba_module(self):
        return {
            "prange": lambda *a: ("prange", a),
            "njit": self._decorator_passthrough("njit"),
            "jit": self._decorator_passthrough("jit"),
            "types": Opaque("nb.types"),
            "literal_unroll": lambda x: x,
            "typed": Opaque("nb.typed"),
        }

    # ------------------------------------------------------------------ closures
    def make_closure(self, fi: FuncInfo, env: Env, bound_self=None) -> Closure:
        return Closure(node=fi.node, env=env, info=fi, bound_self=bound_self, module=fi.module, qualname=fi.ref)

    def call(self, f, args=(), kwargs=None, node=None):
        kwargs = dict(kwargs or {})
        if isinstance(f, Partial):
            return self.call(f.func, f.args + tuple(args), {**f.kwargs, **kwargs}, node)
        if isinstance(f, Closure):
            return self.call_closure(f, args, kwargs, node)
        if isinstance(f, Opaque):
            self.calls_log.append((f.name, tuple(args), kwargs))
            return Opaque(f.name + "()")
        if isinstance(f, sp.FunctionClass) or (isinstance(f, type) and issubclass(f, sp.Function)):
            return f(*[self.as_expr(a, node) for a in args])
        if isinstance(f, UFunc):
            return f(self, args, kwargs, node)
        if isinstance(f, Model) and "__call__" in f._attrs:
            return f._attrs["__call__"](*args, **kwargs)
        if callable(f):
            return f(*args, **kwargs)
        self.fail(node, f"cannot call {f!r}")

    def call_closure(self, c: Closure, args, kwargs, node=None):
        self.depth += 1
        if self.depth > 60:
            self.fail(node, "call depth exceeded")
        try:
            fn = c.node
            env = Env(parent=c.env, module=c.module or c.env.module)
            a = fn.args
            params = [p.arg for p in a.posonlyargs + a.args]
            args = list(args)
            if c.bound_self is not None:
                args = [c.bound_self] + args
            defaults = [None] * (len(params) - len(a.defaults)) + list(a.defaults)
            used_kw = set()
            for i, p in enumerate(params):
                if i < len(args):
                    env.set(p, args[i])
                elif p in kwargs:
                    env.set(p, kwargs[p])
                    used_kw.add(p)
                elif defaults[i] is not None:
                    env.set(p, self.eval(defaults[i], c.env))
                else:
                    self.fail(node, f"missing argument `{p}` calling {c!r}")
            if len(args) > len(params):
                if a.vararg:
                    env.set(a.vararg.arg, tuple(args[len(params) :]))
                else:
                    self.fail(node, f"too many positional arguments calling {c!r}")
            elif a.vararg:
                env.set(a.vararg.arg, ())
            for p, d in zip(a.kwonlyargs, a.kw_defaults):
                if p.arg in kwargs:
                    env.set(p.arg, kwargs[p.arg])
                    used_kw.add(p.arg)
                elif d is not None:
                    env.set(p.arg, self.eval(d, c.env))
                else:
                    self.fail(node, f"missing keyword argument `{p.arg}` calling {c!r}")
            rest = {k: v for k, v in kwargs.items() if k not in used_kw}
            if rest:
                if a.kwarg:
                    env.set(a.kwarg.arg, rest)
                else:
                    self.fail(node, f"unexpected keyword arguments {sorted(rest)} calling {c!r}")
            elif a.kwarg:
                env.set(a.kwarg.arg, {})
            if isinstance(fn, ast.Lambda):
                return self.eval(fn.body, env)
            if c.info is not None and c.info.cls is not None and args:
                env.set("__class__", ClassRef(c.info.cls))
                env.set("__self__", args[0])
            self.func_stack.append(c.qualname or fn.name)
            try:
                self.exec_block(strip_doc(fn.body), env)
            except _Return as r:
                return r.value
            finally:
                self.func_stack.pop()
            return None
        finally:
            self.depth -= 1

    # ------------------------------------------------------------------ statements
    def exec_block(self, body: list[ast.stmt], env: Env) -> None:
        for st in body:
            self.exec(st, env)

    def exec(self, st: ast.stmt, env: Env) -> None:
        m = getattr(self, "exec_" + type(st).__name__, None)
        if m is None:
            self.fail(st, f"statement kind {type(st).__name__} outside the grammar")
        m(st, env)

    def exec_Pass(self, st, env):
        pass

    def exec_Global(self, st, env):
        pass

    def exec_Nonlocal(self, st, env):
        for n in st.names:
            env.vars.setdefault("__nonlocal__", set()).add(n)

    def exec_Import(self, st, env):
        for a in st.names:
            nm = a.asname or a.name.split(".")[0]
            if a.name == "numpy":
                env.set(nm, self.np)
            elif a.name == "math":
                env.set(nm, self.math)
            elif a.name == "numba":
                env.set(nm, self._numba_module())
            else:
                env.set(nm, Opaque(a.name))

    def exec_ImportFrom(self, st, env):
        m = env.module
        # reuse the module import resolution by making a temporary import table
        is_pkg = m.path.name == "__init__.py"
        pkg_parts = m.modname.split(".") if is_pkg else m.modname.split(".")[:-1]
        if st.level:
            base = pkg_parts[: len(pkg_parts) - (st.level - 1)]
            mod = ".".join(base + ([st.module] if st.module else []))
        else:
            mod = st.module or ""
        for a in st.names:
            target = f"{mod}.{a.name}"
            nm = a.asname or a.name
            if target in self.overrides:
                env.set(nm, self.overrides[target])
                continue
            if nm in self.overrides:
                env.set(nm, self.overrides[nm])
                continue
            if mod.split(".")[0] == self.index.package:
                r = self.index.resolve_dotted(target)
                if isinstance(r, FuncInfo):
                    env.set(nm, self.make_closure(r, self.module_env(r.module)))
                    continue
                if isinstance(r, ClassInfo):
                    env.set(nm, ClassRef(r))
                    continue
                if isinstance(r, ModuleInfo):
                    env.set(nm, r)
                    continue
            env.set(nm, Opaque(target))

    def exec_Expr(self, st, env):
        if isinstance(st.value, ast.Constant):
            return
        self.eval(st.value, env)

    def exec_Assert(self, st, env):
        # assertions are preconditions stated by the code itself: recorded, not followed
        try:
            v = self.eval(st.test, env)
        except Unsupported:
            v = None
        self.asserts.append((v, st))

    def exec_Return(self, st, env):
        raise _Return(self.eval(st.value, env) if st.value is not None else None)

    def exec_Raise(self, st, env):
        name = "Exception"
        if st.exc is not None:
            name = dotted(st.exc.func if isinstance(st.exc, ast.Call) else st.exc)
        raise RaisedInCode(name, st)

    def exec_Break(self, st, env):
        raise _Break

    def exec_Continue(self, st, env):
        raise _Continue

    def exec_FunctionDef(self, st, env):
        c = Closure(
            node=st,
            env=env,
            module=env.module,
            qualname=(self.func_stack[-1] + "." if self.func_stack else "") + st.name,
        )
        # attach index info if available (for reporting)
        val: Any = c
        for d in reversed(st.decorator_list):
            dn = dotted(d.func if isinstance(d, ast.Call) else d)
            base = dn.split(".")[-1]
            if base in ("jit", "njit", "register_jitable", "fill_in_docstring", "overload", "nb_overload", "compile_function", "wraps"):
                args, kwargs = (), {}
                if isinstance(d, ast.Call):
                    args = tuple(self._eval_lenient(a, env) for a in d.args)
                    kwargs = {k.arg: self._eval_lenient(k.value, env) for k in d.keywords if k.arg}
                if base in ("overload", "nb_overload"):
                    # @overload(target): register implementation generator on the target
                    tgt = args[0] if args else None
                    if isinstance(tgt, Closure):
                        tgt.decorators.append(("overloaded_by", (c,), kwargs))
                c.decorators.append((base, args, kwargs))
                self.closure_decorators.setdefault(c.qualname, []).append((base, args, kwargs))
                continue
            dec = self.eval(d, env)
            val = self.call(dec, (val,), {}, d)
        env.set(st.name, val)

    def _eval_lenient(self, node, env):
        try:
            return self.eval(node, env)
        except Unsupported:
            return Opaque(ast.unparse(node))

    def exec_Assign(self, st, env):
        v = self.eval(st.value, env)
        for t in st.targets:
            self.assign(t, v, env, st)

    def exec_AnnAssign(self, st, env):
        if st.value is None:
            return
        self.assign(st.target, self.eval(st.value, env), env, st)

    def exec_AugAssign(self, st, env):
        opname = {ast.Add: "+", ast.Sub: "-", ast.Mult: "*", ast.Div: "/", ast.Pow: "**", ast.Mod: "%", ast.FloorDiv: "//"}.get(type(st.op))
        if opname is None:
            self.fail(st, "augmented operator outside the grammar")
        rhs = self.eval(st.value, env)
        t = st.target
        if isinstance(t, ast.Name):
            cur = self.load_name(t.id, env, t)
            if isinstance(cur, WholeArr):
                cur.val = self.binop(st.op, cur.val, rhs, st)
                cur.writes += 1
                return
            if isinstance(cur, SymArray):
                self.store(cur, (), rhs, opname, st)
                return
            self.bind(t.id, self.binop(st.op, cur, rhs, st), env)
            return
        if isinstance(t, ast.Subscript):
            base = self.eval(t.value, env)
            key = self.eval_index(t.slice, env)
            if isinstance(base, SymArray):
                self.store(self._subview(base, key, st), None, rhs, opname, st)
                return
            if isinstance(base, WholeArr):
                base.val = self.binop(st.op, base.val, rhs, st)
                base.writes += 1
                return
            if isinstance(base, (dict, list)):
                k = key[0] if len(key) == 1 else key
                base[to_py(k)] = self.binop(st.op, base[to_py(k)], rhs, st)
                return
            if isinstance(base, Model):
                h = base._attrs.get("__setitem__")
                g = base._attrs.get("__getitem__")
                if h and g:
                    h(key, self.binop(st.op, g(key), rhs, st), opname, st)
                    return
            self.fail(st, f"augmented store into {base!r}")
        if isinstance(t, ast.Attribute):
            obj = self.eval(t.value, env)
            cur = self.getattr(obj, t.attr, t)
            self.setattr(obj, t.attr, self.binop(st.op, cur, rhs, st), st)
            return
        self.fail(st, "augmented assignment target outside the grammar")

    def bind(self, name: str, value, env: Env) -> None:
        for lp in self.loops:
            lp.first_event.setdefault(name, "w")
            lp.written.add(name)
        if name in env.vars.get("__nonlocal__", ()):
            e = env.parent
            while e is not None:
                if name in e.vars:
                    e.vars[name] = value
                    return
                e = e.parent
        env.set(name, value)

    def assign(self, t, v, env, st):
        if isinstance(t, ast.Name):
            self.bind(t.id, v, env)
        elif isinstance(t, (ast.Tuple, ast.List)):
            n = len(t.elts)
            items = self.unpack(v, n, st)
            for tt, vv in zip(t.elts, items):
                self.assign(tt, vv, env, st)
        elif isinstance(t, ast.Subscript):
            base = self.eval(t.value, env)
            key = self.eval_index(t.slice, env)
            if isinstance(base, SymArray):
                self.store(self._subview(base, key, st), None, v, None, st)
            elif isinstance(base, WholeArr):
                # u[:] = v / u[...] = v : whole-array value update;  u[mask] = v : masked update
                if len(key) == 1 and isinstance(key[0], sp.Basic) and key[0] is not ALL and (key[0].is_Boolean or key[0].is_Relational or isinstance(key[0], (sp.Not, sp.And, sp.Or)) or getattr(key[0], "func", None) is not None and getattr(key[0].func, "__name__", "") in ("isfinite", "isnan", "isinf", "invert")):
                    base.val = MASKED(self.as_expr(v, st), key[0], base.val)
                else:
                    base.val = self.as_expr(v, st)
                base.writes += 1
            elif isinstance(base, dict):
                k = key[0] if len(key) == 1 else key
                base[to_py(k)] = v
            elif isinstance(base, list):
                base[to_py(key[0])] = v
            elif isinstance(base, Model) and "__setitem__" in base._attrs:
                base._attrs["__setitem__"](key, v, None, st)
            elif isinstance(base, Opaque):
                pass
            elif isinstance(base, Vec):
                self._vec_store(base, key, v, st)
            elif isinstance(base, IdxArr) and len([k for k in key if k is not Ellipsis]) == 1 and isinstance(to_py([k for k in key if k is not Ellipsis][0]), int):
                # element store into an index-parametrised array: the entry at that index is overridden
                k0 = to_py([k for k in key if k is not Ellipsis][0])
                idx = base.n + k0 if k0 < 0 else sp.Integer(k0)
                base.expr = sp.Piecewise((self.as_expr(v, st), sp.Eq(IdxArr.K, idx)), (base.expr, True))
            else:
                self.fail(st, f"store into {base!r}")
        elif isinstance(t, ast.Attribute):
            obj = self.eval(t.value, env)
            self.setattr(obj, t.attr, v, st)
        elif isinstance(t, ast.Starred):
            self.fail(st, "starred assignment outside the grammar")
        else:
            self.fail(st, "assignment target outside the grammar")

    def _vec_store(self, base: Vec, key, v, st):
        """store into a fixed-size array: integer indices, or paired ranges (diagonal)"""
        seqs = []
        for k in key:
            if k is Ellipsis or k is None:
                continue
            if isinstance(k, tuple) and len(k) == 2 and k[0] == "range":
                a = [to_py(x) for x in k[1]]
                if not all(isinstance(x, int) for x in a):
                    self.fail(st, "symbolic range in an array store")
                seqs.append(list(range(*a)))
            elif isinstance(to_py(k), int):
                seqs.append(None if False else [to_py(k)])
            else:
                self.fail(st, f"store index {k!r} into a fixed-size array")
        n = max(len(q) for q in seqs)
        for j in range(n):
            idx = [q[j] if len(q) > 1 else q[0] for q in seqs]
            tgt = base
            for i in idx[:-1]:
                tgt = tgt.items[i]
            tgt.items[idx[-1]] = v

    def _subview(self, base: SymArray, key, node):
        if base.slots is None:
            key = tuple(
                sp.Function("slice")(*[sp.Symbol("None") if x is None else sp.sympify(x) for x in k[1:]])
                if isinstance(k, tuple) and k and k[0] == "slice"
                else k
                for k in key
            )
            if any(k is Ellipsis for k in key):
                self.fail(node, "ellipsis index into a symbolic array of unknown rank")
        return base.sub(tuple(key))

    def unpack(self, v, n, node):
        if isinstance(v, (tuple, list)):
            if len(v) != n:
                self.fail(node, f"cannot unpack {len(v)} values into {n} targets")
            return list(v)
        if isinstance(v, Vec):
            if len(v) != n:
                self.fail(node, f"cannot unpack Vec of {len(v)} into {n} targets")
            return list(v.items)
        if isinstance(v, SymArray):
            return [v.sub((k,)) for k in range(n)]
        if isinstance(v, Model) and "__unpack__" in v._attrs:
            return v._attrs["__unpack__"](n)
        self.fail(node, f"cannot unpack {v!r}")

    def store(self, view: SymArray, _unused, value, aug, st):
        idx = tuple(view.idx)
        value = self.as_expr(value, st) if not isinstance(value, (SymArray,)) else value.cell()
        key = (view.base, tuple(sp.sympify(i) for i in idx), tuple(id(l) for l in self.loops))
        if aug is not None:
            old = self.store_map.get(key)
            if old is None:
                old = SymArray(view.base, idx).cell()
            opnode = {"+": ast.Add(), "-": ast.Sub(), "*": ast.Mult(), "/": ast.Div()}.get(aug)
            if opnode is None:
                self.fail(st, f"augmented store with operator {aug}")
            new = self.binop(opnode, old, value, st)
        else:
            new = value
        self.store_map[key] = new
        self._order += 1
        self.stores.append(
            Store(
                base=view.base,
                idx=idx,
                value=value,
                aug=aug,
                line=getattr(st, "lineno", 0),
                loops=tuple(self.loops),
                order=self._order,
                func=self.func_stack[-1] if self.func_stack else "",
            )
        )

    def final_stores(self, base: str) -> dict[tuple, Any]:
        """final value per (index tuple) for array ``base`` (after accumulation)"""
        out = {}
        for (b, idx, _loops), v in self.store_map.items():
            if b == base:
                out[idx] = v
        return out

    def exec_If(self, st, env):
        c = self.truth(self.eval(st.test, env), st.test)
        self.exec_block(st.body if c else st.orelse, env)

    def truth(self, v, node) -> bool:
        if isinstance(v, (bool, int, str, type(None), tuple, list, dict, set)):
            return bool(v)
        if v is sp.true:
            return True
        if v is sp.false:
            return False
        if isinstance(v, sp.Basic) and v.is_number and not v.free_symbols:
            return bool(v != 0)
        if isinstance(v, Vec):
            return len(v) > 0
        if self.decide is not None:
            d = self.decide(v, node)
            if d is not None:
                return bool(d)
        self.fail(node, f"branch on a non-constant condition ({v!r})")

    def exec_For(self, st, env):
        it = self.eval(st.iter, env)
        if isinstance(it, tuple) and len(it) == 2 and it[0] in ("range", "prange"):
            kind, a = it
            a = [to_py(x) for x in a]
            if len(a) == 1:
                lo, hi, step = 0, a[0], 1
            elif len(a) == 2:
                lo, hi, step = a[0], a[1], 1
            else:
                lo, hi, step = a
            if all(isinstance(x, int) for x in (lo, hi, step)):
                seq = range(lo, hi, step)
                self._loop_concrete(st, env, seq)
                return
            if step != 1:
                self.fail(st, "symbolic loop with step != 1")
            if not isinstance(st.target, ast.Name):
                self.fail(st, "symbolic loop target must be a name")
            if self.loop_cases is not None:
                # rule-supplied case split of a symbolic loop (first / interior / last row ...)
                cases = self.loop_cases(st.target.id, lo, hi, st)
                if cases is not None:
                    for label, value in cases:
                        self.case_stack.append((st.target.id, label))
                        env.set(st.target.id, value)
                        try:
                            self.exec_block(st.body, env)
                        except _Continue:
                            pass
                        except _Break:
                            pass  # the case ends here
                        finally:
                            self.case_stack.pop()
                    return
            sym = sp.Symbol(st.target.id, integer=True)
            lp = LoopInfo(
                var=st.target.id, sym=sym, lo=lo, hi=hi, kind=kind, line=st.lineno, func=self.func_stack[-1] if self.func_stack else ""
            )
            self.all_loops.append(lp)
            env.set(st.target.id, sym)
            self.loops.append(lp)
            try:
                try:
                    self.exec_block(st.body, env)
                except _Continue:
                    pass
                except _Break:
                    self.fail(st, "break inside a symbolic loop")
            finally:
                self.loops.pop()
            lp.carried = {n for n in lp.written if lp.first_event.get(n) == "r"}
            if st.orelse:
                self.exec_block(st.orelse, env)
            return
        if isinstance(it, (tuple, list, Vec, range)) or isinstance(it, dict):
            seq = list(it.items if isinstance(it, Vec) else it)
            self._loop_concrete(st, env, seq)
            return
        if isinstance(it, Model) and "__iter__" in it._attrs:
            self._loop_concrete(st, env, list(it._attrs["__iter__"]()))
            return
        if isinstance(it, SymArray) and False:
            pass
        self.fail(st, f"loop over {it!r} outside the grammar")

    def _loop_concrete(self, st, env, seq):
        broke = False
        for item in seq:
            self.assign(st.target, item, env, st)
            try:
                self.exec_block(st.body, env)
            except _Continue:
                continue
            except _Break:
                broke = True
                break
        if st.orelse and not broke:
            self.exec_block(st.orelse, env)

    def exec_While(self, st, env):
        if self.while_once is not None and self.while_once(st):
            # rule-requested: interpret one generic iteration of the loop
            self.while_iterations.append(st)
            try:
                self.exec_block(st.body, env)
            except (_Continue, _Break) as e:
                self.while_exit = "break" if isinstance(e, _Break) else "continue"
            else:
                self.while_exit = "fall"
            return
        # only loops with concretely decidable conditions are followed
        n = 0
        while self.truth(self.eval(st.test, env), st.test):
            n += 1
            if n > 1000:
                self.fail(st, "while loop does not terminate on concrete values")
            try:
                self.exec_block(st.body, env)
            except _Continue:
                continue
            except _Break:
                break

    def exec_With(self, st, env):
        for item in st.items:
            v = self._eval_lenient(item.context_expr, env)
            if item.optional_vars is not None:
                self.assign(item.optional_vars, v, env, st)
        self.exec_block(st.body, env)

    def exec_Try(self, st, env):
        try:
            self.exec_block(st.body, env)
        except RaisedInCode as e:
            for h in st.handlers:
                names = []
                if h.type is None:
                    names = [e.exc_name]
                elif isinstance(h.type, ast.Tuple):
                    names = [dotted(x) for x in h.type.elts]
                else:
                    names = [dotted(h.type)]
                if e.exc_name in names or "Exception" in names or h.type is None:
                    if h.name:
                        env.set(h.name, Opaque("exception"))
                    self.exec_block(h.body, env)
                    break
            else:
                raise
        else:
            self.exec_block(st.orelse, env)
        finally:
            if st.finalbody:
                self.exec_block(st.finalbody, env)

    def exec_Delete(self, st, env):
        pass

    # ------------------------------------------------------------------ expressions
    def eval(self, node: ast.expr, env: Env):
        m = getattr(self, "eval_" + type(node).__name__, None)
        if m is None:
            self.fail(node, f"expression kind {type(node).__name__} outside the grammar")
        return m(node, env)

    def eval_Constant(self, node, env):
        v = node.value
        if v is Ellipsis:
            return Ellipsis
        if isinstance(v, complex):
            return sp.I * num(v.imag) + num(v.real)
        return num(v)

    def load_name(self, name, env, node):
        for lp in self.loops:
            lp.first_event.setdefault(name, "r")
        try:
            return env.lookup(name)
        except KeyError:
            pass
        m = env.module
        if m is None:
            self.fail(node, f"unknown name `{name}`")
        return self.global_lookup(m, name, node)

    def eval_Name(self, node, env):
        return self.load_name(node.id, env, node)

    def eval_Tuple(self, node, env):
        out = []
        for e in node.elts:
            if isinstance(e, ast.Starred):
                out.extend(self._iterate(self.eval(e.value, env), e))
            else:
                out.append(self.eval(e, env))
        return tuple(out)

    def eval_List(self, node, env):
        return list(self.eval_Tuple(node, env))

    def eval_Set(self, node, env):
        return set(self.eval_Tuple(node, env))

    def eval_Dict(self, node, env):
        out = {}
        for k, v in zip(node.keys, node.values):
            if k is None:
                out.update(self.eval(v, env))
            else:
                out[self.eval(k, env)] = self.eval(v, env)
        return out

    def eval_JoinedStr(self, node, env):
        parts = []
        for v in node.values:
            if isinstance(v, ast.Constant):
                parts.append(str(v.value))
            else:
                try:
                    x = self.eval(v.value, env)
                    parts.append(str(x))
                except Unsupported:
                    parts.append("{?}")
        return "".join(parts)

    def eval_FormattedValue(self, node, env):
        return str(self.eval(node.value, env))

    def eval_Lambda(self, node, env):
        return Closure(node=node, env=env, module=env.module, qualname="<lambda>")

    def eval_IfExp(self, node, env):
        c = self.truth(self.eval(node.test, env), node.test)
        return self.eval(node.body if c else node.orelse, env)

    def eval_Starred(self, node, env):
        self.fail(node, "starred expression outside a call/tuple")

    def eval_NamedExpr(self, node, env):
        v = self.eval(node.value, env)
        self.assign(node.target, v, env, node)
        return v

    def _iterate(self, v, node):
        if isinstance(v, (tuple, list, set, range)):
            return list(v)
        if isinstance(v, dict):
            return list(v)
        if isinstance(v, Vec):
            return list(v.items)
        if isinstance(v, Model) and "__iter__" in v._attrs:
            return list(v._attrs["__iter__"]())
        self.fail(node, f"cannot iterate over {v!r}")

    def eval_ListComp(self, node, env):
        return self._comp(node, env, node.elt)

    def eval_GeneratorExp(self, node, env):
        return self._comp(node, env, node.elt)

    def eval_SetComp(self, node, env):
        return set(self._comp(node, env, node.elt))

    def eval_DictComp(self, node, env):
        out = {}

        def rec(k, e):
            if k == len(node.generators):
                out[self.eval(node.key, e)] = self.eval(node.value, e)
                return
            g = node.generators[k]
            for item in self._iter_values(self.eval(g.iter, e), g.iter):
                e2 = Env(parent=e)
                self.assign(g.target, item, e2, node)
                if all(self.truth(self.eval(c, e2), c) for c in g.ifs):
                    rec(k + 1, e2)

        rec(0, env)
        return out

    def _iter_values(self, it, node):
        if isinstance(it, tuple) and len(it) == 2 and it[0] in ("range", "prange"):
            a = [to_py(x) for x in it[1]]
            if not all(isinstance(x, int) for x in a):
                self.fail(node, "comprehension over a symbolic range")
            return list(range(*a))
        return self._iterate(it, node)

    def _comp(self, node, env, elt):
        out = []

        def rec(k, e):
            if k == len(node.generators):
                out.append(self.eval(elt, e))
                return
            g = node.generators[k]
            for item in self._iter_values(self.eval(g.iter, e), g.iter):
                e2 = Env(parent=e)
                self.assign(g.target, item, e2, node)
                if all(self.truth(self.eval(c, e2), c) for c in g.ifs):
                    rec(k + 1, e2)

        rec(0, env)
        return out

    def eval_BoolOp(self, node, env):
        if isinstance(node.op, ast.And):
            v = True
            for e in node.values:
                v = self.eval(e, env)
                if is_concrete(v) or isinstance(v, (tuple, list, dict, set)) or v is sp.true or v is sp.false:
                    if not self.truth(v, e):
                        return v
                else:
                    if not self.truth(v, e):
                        return v
            return v
        v = False
        for e in node.values:
            v = self.eval(e, env)
            if self.truth(v, e):
                return v
        return v

    def eval_UnaryOp(self, node, env):
        v = self.eval(node.operand, env)
        if isinstance(node.op, ast.Not):
            return not self.truth(v, node.operand)
        if isinstance(node.op, ast.USub):
            return self.binop(ast.Mult(), -1, v, node)
        if isinstance(node.op, ast.UAdd):
            return v
        if isinstance(node.op, ast.Invert):
            if isinstance(v, bool):
                return not v
            if isinstance(v, sp.Basic):
                return sp.Not(v) if (v.is_Boolean or v.is_Relational) else sp.Function("invert")(v)
        self.fail(node, "unary operator outside the grammar")

    def eval_BinOp(self, node, env):
        a = self.eval(node.left, env)
        b = self.eval(node.right, env)
        return self.binop(node.op, a, b, node)

    def as_expr(self, v, node=None):
        if isinstance(v, SymArray):
            return v.cell()
        if isinstance(v, WholeArr):
            return v.val
        if isinstance(v, bool):
            return sp.Integer(int(v))
        if isinstance(v, int):
            return sp.Integer(v)
        if isinstance(v, sp.Basic):
            return v
        if isinstance(v, (Vec, IdxArr)):
            return v
        if isinstance(v, Model) and "__expr__" in v._attrs:
            return v._attrs["__expr__"]
        self.fail(node, f"value {v!r} used in arithmetic")

    def binop(self, op, a, b, node=None):
        # strings / sequences
        if isinstance(a, str) or isinstance(b, str):
            if isinstance(op, ast.Add) and isinstance(a, str) and isinstance(b, str):
                return a + b
            if isinstance(op, ast.Mod) and isinstance(a, str):
                return a
            if isinstance(op, ast.Mult):
                return a * b
            self.fail(node, "string operation outside the grammar")
        if isinstance(a, (tuple, list)) and isinstance(b, (tuple, list)) and isinstance(op, ast.Add):
            return a + type(a)(b)
        if isinstance(a, (tuple, list)) and isinstance(op, ast.Mult) and isinstance(to_py(b), int):
            return a * to_py(b)
        if isinstance(b, (tuple, list)) and isinstance(op, ast.Mult) and isinstance(to_py(a), int):
            return b * to_py(a)
        if isinstance(a, set) and isinstance(b, set):
            if isinstance(op, ast.BitOr):
                return a | b
            if isinstance(op, ast.BitAnd):
                return a & b
            if isinstance(op, ast.Sub):
                return a - b
        if isinstance(a, Model) and "__binop__" in a._attrs:
            return a._attrs["__binop__"](op, a, b, False)
        if isinstance(b, Model) and "__binop__" in b._attrs:
            return b._attrs["__binop__"](op, b, a, True)
        a = self.as_expr(a, node) if not isinstance(a, (Vec, IdxArr)) else a
        b = self.as_expr(b, node) if not isinstance(b, (Vec, IdxArr)) else b
        # element-wise on vectors
        if isinstance(a, Vec) or isinstance(b, Vec):
            if isinstance(a, Vec) and isinstance(b, Vec):
                # numpy aligns trailing axes: a table against a flat vector works row by row
                da, db = _vec_depth(a), _vec_depth(b)
                if da > db:
                    return Vec([self.binop(op, x, b, node) for x in a.items])
                if db > da:
                    return Vec([self.binop(op, a, y, node) for y in b.items])
                if len(a) != len(b):
                    self.fail(node, "length mismatch in element-wise operation")
                return Vec([self.binop(op, x, y, node) for x, y in zip(a.items, b.items)])
            if isinstance(a, Vec):
                return Vec([self.binop(op, x, b, node) for x in a.items])
            return Vec([self.binop(op, a, y, node) for y in b.items])
        if isinstance(a, IdxArr) or isinstance(b, IdxArr):
            n = a.n if isinstance(a, IdxArr) else b.n
            ea = a.expr if isinstance(a, IdxArr) else a
            eb = b.expr if isinstance(b, IdxArr) else b
            return IdxArr(self.binop(op, ea, eb, node), n)
        return self.scalar_binop(op, a, b, node)

    def scalar_binop(self, op, a, b, node):
        t = type(op)
        if t in _BIN:
            if t is ast.Pow and isinstance(a, sp.Integer) and isinstance(b, sp.Integer) and b < 0:
                return sp.Rational(1, a ** (-b))
            r = _BIN[t](a, b)
        elif t is ast.Div:
            if self.div_log is not None and not getattr(b, "is_number", True):
                self.div_log.append((b, getattr(node, "lineno", None)))
            r = a / b
        elif t is ast.FloorDiv:
            if is_concrete(a) and is_concrete(b):
                r = sp.floor(a / b)
            else:
                r = sp.floor(a / b)
        elif t is ast.Mod:
            r = sp.Mod(a, b)
        elif t is ast.MatMult:
            self.fail(node, "matrix product outside the grammar")
        elif t in (ast.BitAnd, ast.BitOr):
            r = sp.And(a, b) if t is ast.BitAnd else sp.Or(a, b)
        else:
            self.fail(node, f"operator {t.__name__} outside the grammar")
        if isinstance(r, sp.Integer):
            return int(r)
        return r

    def eval_Compare(self, node, env):
        left = self.eval(node.left, env)
        result = True
        for op, rn in zip(node.ops, node.comparators):
            right = self.eval(rn, env)
            r = self.compare(op, left, right, node)
            if r is False or r is sp.false:
                return False
            if r is True or r is sp.true:
                left = right
                continue
            result = r if result is True else sp.And(result, r)
            left = right
        return result

    def compare(self, op, a, b, node):
        t = type(op)
        if t in (ast.Is, ast.IsNot):
            if isinstance(a, sp.Basic) and b is None:
                r = False
            elif isinstance(b, sp.Basic) and a is None:
                r = False
            elif isinstance(a, (Opaque,)) or isinstance(b, (Opaque,)):
                if b is None or a is None:
                    r = False  # an opaque object is an object, not None
                else:
                    self.fail(node, "identity test on opaque values")
            else:
                r = a is b or (type(a) is type(b) and isinstance(a, (bool, int, str)) and a == b)
            return r if t is ast.Is else not r
        if t in (ast.In, ast.NotIn):
            if isinstance(b, Model) and "__contains__" in b._attrs:
                r = b._attrs["__contains__"](a)
            elif isinstance(b, (tuple, list, set, dict, str, frozenset)):
                if not is_concrete(a) and not isinstance(a, str):
                    # symbolic value against a literal sequence: `a == b0 or a == b1 ...`, each decided like a comparison
                    if not isinstance(b, (tuple, list)) or not isinstance(a, sp.Basic):
                        self.fail(node, "membership test of a symbolic value")
                    r = False
                    for item in b:
                        if self.truth(self.compare(ast.Eq(), a, item, node), node):
                            r = True
                            break
                    return r if t is ast.In else not r
                r = to_py(a) in b
            else:
                self.fail(node, f"membership test in {b!r}")
            return r if t is ast.In else not r
        if isinstance(a, ClassRef) or isinstance(b, ClassRef):
            ra = a.info if isinstance(a, ClassRef) else a
            rb = b.info if isinstance(b, ClassRef) else b
            r = ra is rb
            return r if t is ast.Eq else (not r if t is ast.NotEq else self.fail(node, "ordering of classes"))
        if isinstance(a, (str, type(None), tuple, list, dict, set)) or isinstance(b, (str, type(None), tuple, list, dict, set)):
            if t is ast.Eq:
                return self._py_eq(a, b)
            if t is ast.NotEq:
                return not self._py_eq(a, b)
            if isinstance(a, (tuple, list)) and isinstance(b, (tuple, list)) and is_concrete(a) and is_concrete(b):
                return {ast.Lt: _op.lt, ast.LtE: _op.le, ast.Gt: _op.gt, ast.GtE: _op.ge}[t](a, b)
            self.fail(node, "comparison outside the grammar")
        if isinstance(a, Opaque) or isinstance(b, Opaque):
            self.fail(node, f"comparison with opaque value {a!r} / {b!r}")
        a = self.as_expr(a, node)
        b = self.as_expr(b, node)
        if isinstance(a, (Vec, IdxArr)) or isinstance(b, (Vec, IdxArr)):
            self.fail(node, "comparison of arrays")
        f = {ast.Eq: sp.Eq, ast.NotEq: sp.Ne, ast.Lt: sp.Lt, ast.LtE: sp.Le, ast.Gt: sp.Gt, ast.GtE: sp.Ge}[t]
        try:
            r = f(a, b)
        except TypeError:
            self.fail(node, "comparison of non-real symbolic values")
        if r is sp.true:
            return True
        if r is sp.false:
            return False
        return r

    def _py_eq(self, a, b):
        if isinstance(a, (tuple, list)) and isinstance(b, (tuple, list)):
            return len(a) == len(b) and all(self._py_eq(x, y) for x, y in zip(a, b))
        if isinstance(a, sp.Basic) or isinstance(b, sp.Basic):
            try:
                d = sp.simplify(sp.sympify(a) - sp.sympify(b))
            except Exception:  # noqa: BLE001
                return False
            return d == 0
        return a == b

    def eval_Attribute(self, node, env):
        obj = self.eval(node.value, env)
        return self.getattr(obj, node.attr, node)

    def getattr(self, obj, attr, node=None):
        if isinstance(obj, Model):
            if attr in obj._attrs:
                v = obj._attrs[attr]
                if isinstance(v, _Lazy):
                    v = v.fn()
                    obj._attrs[attr] = v
                return v
            if obj._cls is not None:
                f = obj._cls.find_method(attr)
                if f is not None:
                    decs = f.decorator_names
                    cl = self.make_closure(f, self.module_env(f.module), bound_self=obj)
                    if any(d in ("property", "cached_property()", "cached_property", "functools.cached_property") or d.endswith("cached_property") for d in decs):
                        return self.call_closure(cl, (), {}, node)
                    if "staticmethod" in decs:
                        cl.bound_self = None
                    if "classmethod" in decs:
                        cl.bound_self = ClassRef(obj._cls)
                    return cl
                a = obj._cls.find_attr(attr)
                if a is not None:
                    c, expr = a
                    return self.eval(expr, self.module_env(c.module))
                if attr == "__class__":
                    return ClassRef(obj._cls)
            if not obj._strict:
                return Opaque(f"{obj._name}.{attr}")
            self.fail(node, f"attribute `{attr}` of {obj!r} is not modelled")
        if isinstance(obj, SuperProxy):
            mro = obj.obj._cls.mro() if isinstance(obj.obj, Model) and obj.obj._cls else obj.cls.mro()
            after = mro[mro.index(obj.cls) + 1 :] if obj.cls in mro else mro[1:]
            for c in after:
                for f in c.methods.get(attr, []):
                    if any(d.endswith(".setter") for d in f.decorator_names):
                        continue
                    cl = self.make_closure(f, self.module_env(f.module), bound_self=obj.obj)
                    if any(d == "property" or d.endswith("cached_property") or d.endswith("cached_property()") for d in f.decorator_names):
                        return self.call_closure(cl, (), {}, node)
                    return cl
            self.fail(node, f"super().{attr} not found")
        if isinstance(obj, Opaque):
            return Opaque(f"{obj.name}.{attr}")
        if isinstance(obj, dict):
            if attr in obj and not hasattr(dict, attr):
                return obj[attr]
            if attr in ("items", "keys", "values", "get", "pop", "update", "copy", "setdefault", "popitem", "clear"):
                if attr in ("items", "keys", "values"):
                    return lambda: list(getattr(obj, attr)())
                return getattr(obj, attr)
            if attr in obj:
                return obj[attr]
            self.fail(node, f"attribute `{attr}` of a table is not modelled")
        if isinstance(obj, ModuleInfo):
            return self.global_lookup(obj, attr, node)
        if isinstance(obj, ClassRef):
            f = obj.info.find_method(attr)
            if f is not None:
                cl = self.make_closure(f, self.module_env(f.module))
                if "classmethod" in f.decorator_names:
                    cl.bound_self = obj
                return cl
            a = obj.info.find_attr(attr)
            if a is not None:
                c, expr = a
                return self.eval(expr, self.module_env(c.module))
            if attr == "__name__":
                return obj.info.name
            self.fail(node, f"class attribute {obj.info.name}.{attr} not found")
        if isinstance(obj, SymArray):
            if attr == "real" or attr == "imag":
                return obj
            if attr == "copy":
                return lambda: obj
            if obj.slots is not None:
                if attr == "ndim":
                    return len(obj.open_extents)
                if attr == "shape":
                    return tuple(to_py(sp.simplify(e)) if not isinstance(e, int) else e for e in obj.open_extents)
            if attr in ("shape", "ndim", "dtype", "size"):
                return Opaque(f"{obj.base}.{attr}")
            if attr == "flat":
                return obj
            self.fail(node, f"attribute `{attr}` of symbolic array")
        if isinstance(obj, WholeArr):
            if attr == "copy":
                return lambda: WholeArr(obj.name + "_copy", obj.val)
            if attr == "size":
                return sp.Symbol("array_size", integer=True, positive=True)
            if attr in ("shape", "dtype", "ndim"):
                return Opaque(f"{obj.name}.{attr}")
            if attr in ("real", "imag", "flat"):
                return obj
            if attr == "max":
                return lambda *a, **k: sp.Function("amax")(obj.val)
            self.fail(node, f"attribute `{attr}` of array value")
        if isinstance(obj, Vec):
            if attr == "shape":
                return obj.shape
            if attr == "copy":
                return lambda: Vec(obj.items)
            if attr == "ndim":
                return len(obj.shape)
            if attr == "size":
                n = 1
                for s in obj.shape:
                    n *= s
                return n
            self.fail(node, f"attribute `{attr}` of vector")
        if isinstance(obj, (tuple, list)):
            if attr == "index":
                return lambda x: list(obj).index(x)
            if attr in ("append", "extend", "pop", "insert", "copy", "count") and isinstance(obj, list):
                return getattr(obj, attr)
            if attr == "count":
                return obj.count
        if isinstance(obj, str):
            if attr in ("startswith", "endswith", "lower", "upper", "format", "join", "split", "strip", "replace", "index", "rsplit"):
                return getattr(obj, attr)
        if isinstance(obj, set):
            if attr in ("add", "update", "discard"):
                return getattr(obj, attr)
        if isinstance(obj, sp.Basic):
            if attr in ("real", "flat"):
                return obj
            if attr == "max":
                return lambda *a, **k: sp.Function("amax")(obj)
            if attr == "size":
                return sp.Symbol("array_size", integer=True, positive=True)
            if attr == "conjugate":
                return lambda: sp.conjugate(obj)
            if attr == "copy":
                return lambda: obj
        if isinstance(obj, IdxArr):
            if attr in ("copy", "reshape", "flatten", "ravel"):
                return lambda *a, **k: obj
            if attr == "size":
                return obj.n
            if attr == "shape":
                return (obj.n,)
        if isinstance(obj, Closure) and attr in ("__name__",):
            return getattr(obj.node, "name", "lambda")
        self.fail(node, f"attribute `{attr}` of {obj!r} is not modelled")

    def setattr(self, obj, attr, v, node=None):
        if isinstance(obj, Model):
            obj._attrs[attr] = v
            return
        if isinstance(obj, Opaque):
            return
        if isinstance(obj, Closure):
            return
        self.fail(node, f"attribute store on {obj!r}")

    def eval_index(self, sl, env) -> tuple:
        if isinstance(sl, ast.Tuple):
            out = []
            for e in sl.elts:
                if isinstance(e, ast.Starred):
                    out.extend(self._iterate(self.eval(e.value, env), e))
                else:
                    out.append(self._eval_idx1(e, env))
            return tuple(out)
        v = self._eval_idx1(sl, env)
        if isinstance(v, tuple) and not (len(v) == 4 and v and v[0] == "slice"):
            return v
        return (v,)

    def _eval_idx1(self, e, env):
        if isinstance(e, ast.Slice):
            lo = self.eval(e.lower, env) if e.lower else None
            hi = self.eval(e.upper, env) if e.upper else None
            st = self.eval(e.step, env) if e.step else None
            if lo is None and hi is None and st is None:
                return ALL
            return ("slice", lo, hi, st)
        v = self.eval(e, env)
        if isinstance(v, SymArray):
            return v.cell()
        return v

    def eval_Slice(self, node, env):
        return self._eval_idx1(node, env)

    def eval_Subscript(self, node, env):
        base = self.eval(node.value, env)
        key = self.eval_index(node.slice, env)
        return self.getitem(base, key, node)

    def getitem(self, base, key: tuple, node=None):
        if isinstance(base, SymArray):
            key2 = []
            for k in key:
                if base.slots is None:
                    if k is Ellipsis:
                        self.fail(node, "ellipsis index into a symbolic array of unknown rank")
                    if isinstance(k, tuple) and k and k[0] == "slice":
                        k = sp.Function("slice")(*[sp.Symbol("None") if x is None else sp.sympify(x) for x in k[1:]])
                key2.append(k)
            view = base.sub(tuple(key2))
            self.reads.append((view.base, tuple(view.idx), tuple(self.loops), self.func_stack[-1] if self.func_stack else ""))
            # a read of a cell that was stored earlier in the same iteration sees the store
            k3 = (view.base, tuple(sp.sympify(i) for i in view.idx), tuple(id(l) for l in self.loops))
            if k3 in self.store_map:
                return self.store_map[k3]
            return view
        if isinstance(base, WholeArr):
            return base  # element-wise semantics: any slice of it behaves like the array
        if isinstance(base, Model):
            if "__getitem__" in base._attrs:
                return base._attrs["__getitem__"](key)
            self.fail(node, f"subscript of {base!r} is not modelled")
        if isinstance(base, Vec):
            def index(v, keys):
                if not keys:
                    return v
                k, rest = keys[0], keys[1:]
                if k is None or k is Ellipsis:
                    return index(v, rest)
                if not isinstance(v, Vec):
                    self.fail(node, "too many indices for a fixed-length vector")
                if k is ALL:
                    return Vec([index(x, rest) for x in v.items]) if rest else v
                if isinstance(k, tuple) and k and k[0] == "slice":
                    lo, hi, st = (to_py(x) for x in k[1:])
                    sub = Vec(v.items[slice(lo, hi, st)])
                    return Vec([index(x, rest) for x in sub.items]) if rest else sub
                if isinstance(k, (list, tuple)) and all(isinstance(to_py(i), int) for i in k):
                    sub = type(v)([v.items[to_py(i)] for i in k])
                    return Vec([index(x, rest) for x in sub.items]) if rest else sub
                kk = to_py(k)
                if not isinstance(kk, int):
                    self.fail(node, "symbolic index into a fixed-length vector")
                return index(v.items[kk], rest)

            return index(base, list(key))
        if isinstance(base, IdxArr):
            if len(key) != 1:
                self.fail(node, "multi-index into 1-d array")
            k = key[0]
            if k is ALL:
                return base
            if isinstance(k, tuple) and k and k[0] == "slice":
                lo, hi, st = k[1:]
                if st not in (None, 1):
                    self.fail(node, "strided slice of index array")
                lo = 0 if lo is None else to_py(lo)
                hi_ = base.n if hi is None else to_py(hi)
                if isinstance(hi_, int) and hi_ < 0:
                    hi_ = base.n + hi_
                if isinstance(lo, int) and lo < 0:
                    lo = base.n + lo
                return IdxArr(base.expr.subs(IdxArr.K, IdxArr.K + lo), hi_ - lo)
            return base.at(to_py(k))
        if isinstance(base, (tuple, list, str)):
            if len(key) != 1:
                self.fail(node, "multi-index into a sequence")
            k = key[0]
            if k is ALL:
                return base[:]
            if isinstance(k, tuple) and k and k[0] == "slice":
                lo, hi, st = (to_py(x) if x is not None else None for x in k[1:])
                return base[slice(lo, hi, st)]
            kk = to_py(k)
            if not isinstance(kk, int):
                self.fail(node, f"symbolic index `{k}` into a sequence")
            try:
                return base[kk]
            except IndexError:
                raise RaisedInCode("IndexError", node) from None
        if isinstance(base, dict):
            k = key[0] if len(key) == 1 else key
            k = to_py(k)
            if k not in base:
                raise RaisedInCode("KeyError", node)
            return base[k]
        if isinstance(base, Opaque):
            return Opaque(base.name + "[]")
        if callable(base) and not isinstance(base, (Closure, Model)):
            return Opaque("type-alias")  # e.g. tuple[int, ...] used as a type alias
        if isinstance(base, sp.Basic):
            # scalar broadcast, e.g. value[...] on a scalar
            if all(k is Ellipsis or k is ALL or k is None for k in key):
                return base
            # a symbol standing for an array of per-point values: remember the index
            kk = [k for k in key if k is not Ellipsis and k is not None]
            if all(isinstance(k, (int, sp.Basic)) for k in kk):
                return AT(base, *[sp.sympify(k) for k in kk])
        self.fail(node, f"subscript of {base!r}")

    def eval_Call(self, node, env):
        if isinstance(node.func, ast.Name) and node.func.id == "super" and not node.args and "super" not in self.overrides:
            try:
                cls = env.lookup("__class__")
                slf = env.lookup("__self__")
            except KeyError:
                self.fail(node, "super() outside a method")
            return SuperProxy(slf, cls.info)
        f = self.eval(node.func, env)
        args = []
        for a in node.args:
            if isinstance(a, ast.Starred):
                args.extend(self._iterate(self.eval(a.value, env), a))
            else:
                args.append(self.eval(a, env))
        kwargs = {}
        for k in node.keywords:
            if k.arg is None:
                v = self.eval(k.value, env)
                if not isinstance(v, dict):
                    self.fail(node, "** of a non-table")
                kwargs.update(v)
            else:
                kwargs[k.arg] = self.eval(k.value, env)
        return self.call(f, args, kwargs, node)

    # ------------------------------------------------------------------ libraries
    def _make_builtins(self):
        I = self

        def _range(*a):
            return ("range", a)

        def _len(x):
            if isinstance(x, (tuple, list, dict, set, str, Vec)):
                return len(x)
            if isinstance(x, IdxArr):
                return x.n
            if isinstance(x, Model) and "__len__" in x._attrs:
                return x._attrs["__len__"]
            I.fail(None, f"len() of {x!r}")

        def _isinstance(obj, cls):
            classes = cls if isinstance(cls, tuple) else (cls,)
            standins = {id(I.builtins[n]): t for n, t in (("int", int), ("float", float), ("tuple", tuple), ("list", list), ("dict", dict), ("bool", bool), ("set", set)) if n in I.builtins}
            classes = tuple(standins.get(id(c), c) for c in classes)
            for c in classes:
                if isinstance(obj, Model) and obj._cls is not None and isinstance(c, ClassRef):
                    if obj._cls.is_subclass_of(c.info):
                        return True
                    continue
                if isinstance(obj, Model) and "__isinstance__" in obj._attrs:
                    r = obj._attrs["__isinstance__"](c)
                    if r is not None:
                        if r:
                            return True
                        continue
                if isinstance(c, ClassRef):
                    if isinstance(obj, (int, str, bool, tuple, list, dict, sp.Basic, type(None), Vec, IdxArr, SymArray, WholeArr, Closure)):
                        continue
                    I.fail(None, f"isinstance({obj!r}, {c!r}) undecidable")
                if c is int:
                    if isinstance(obj, int) and not isinstance(obj, bool):
                        return True
                    continue
                if c is str:
                    if isinstance(obj, str):
                        return True
                    continue
                if c is bool:
                    if isinstance(obj, bool):
                        return True
                    continue
                if c is dict:
                    if isinstance(obj, dict):
                        return True
                    continue
                if c in (tuple, list):
                    if isinstance(obj, c):
                        return True
                    continue
                if c is float:
                    if isinstance(obj, sp.Basic) and obj.is_number:
                        return True
                    continue
                if isinstance(c, Opaque):
                    r = I.opaque_isinstance(obj, c)
                    if r:
                        return True
                    continue
                I.fail(None, f"isinstance against {c!r}")
            return False

        def _enumerate(x, start=0):
            return [(i + start, v) for i, v in enumerate(I._iterate(x, None))]

        def _zip(*xs, strict=False):
            return list(zip(*[I._iterate(x, None) for x in xs]))

        def _sum(xs, start=0):
            tot = start
            for x in I._iterate(xs, None):
                tot = I.binop(ast.Add(), tot, x)
            return tot

        def _abs(x):
            return sp.Abs(I.as_expr(x))

        def _minmax(fn):
            def f(*a, **k):
                if len(a) == 1:
                    a = tuple(I._iterate(a[0], None))
                a = [I.as_expr(x) for x in a]
                if all(is_concrete(x) for x in a):
                    return to_py(fn(*a))
                return fn(*a)

            return f

        def _int(x=0):
            x = to_py(x)
            if isinstance(x, (int, str)):
                return int(x)
            if isinstance(x, sp.Basic) and x.is_number:
                return int(x)
            return sp.Function("int")(x)

        def _float(x=0):
            if isinstance(x, str):
                return num(float(x))
            return I.as_expr(x)

        def _round(x, n=None):
            x = I.as_expr(x)
            if is_concrete(x):
                return int(round(x))
            return sp.Function("round")(x)

        def _getattr(obj, name, *default):
            try:
                return I.getattr(obj, name)
            except Unsupported:
                if default:
                    return default[0]
                raise

        def _hasattr(obj, name):
            try:
                I.getattr(obj, name)
                return True
            except Unsupported:
                return False

        return {
            "range": _range,
            "len": _len,
            "isinstance": _isinstance,
            "enumerate": _enumerate,
            "zip": _zip,
            "sum": _sum,
            "abs": _abs,
            "min": _minmax(sp.Min),
            "max": _minmax(sp.Max),
            "int": _int,
            "float": _float,
            "round": _round,
            "bool": lambda x: I.truth(x, None),
            "tuple": lambda x=(): tuple(I._iterate(x, None)),
            "list": lambda x=(): list(I._iterate(x, None)),
            "dict": lambda *a, **k: dict(*a, **k),
            "set": lambda x=(): set(I._iterate(x, None)),
            "str": str,
            "sorted": lambda x, **k: sorted(I._iterate(x, None)),
            "reversed": lambda x: list(reversed(I._iterate(x, None))),
            "all": lambda xs: all(I.truth(x, None) for x in I._iterate(xs, None)),
            "any": lambda xs: any(I.truth(x, None) for x in I._iterate(xs, None)),
            "getattr": _getattr,
            "hasattr": _hasattr,
            "callable": lambda f: isinstance(f, (Closure, Partial, UFunc)) or callable(f),
            "print": lambda *a, **k: None,
            "slice": lambda *a: ALL if all(x is None for x in a) else ("slice", *(list(a) + [None] * (3 - len(a)))),
            "True": True,
            "False": False,
            "None": None,
            "Ellipsis": Ellipsis,
            "TYPE_CHECKING": False,
            "NotImplementedError": Opaque("NotImplementedError"),
            "ValueError": Opaque("ValueError"),
            "TypeError": Opaque("TypeError"),
            "RuntimeError": Opaque("RuntimeError"),
            "StopIteration": Opaque("StopIteration"),
            "IndexError": Opaque("IndexError"),
            "KeyError": Opaque("KeyError"),
            "DeprecationWarning": Opaque("DeprecationWarning"),
            "super": lambda *a: I.fail(None, "super() outside the grammar"),
            "complex": lambda re=0, im=0: I.as_expr(re) + sp.I * I.as_expr(im),
            "type": lambda o: ClassRef(o._cls) if isinstance(o, Model) and o._cls else Opaque("type"),
            "id": lambda o: id(o),
        }

    def opaque_isinstance(self, obj, c: Opaque):
        n = c.name.split(".")[-1]
        if n in ("ndarray",):
            return isinstance(obj, (Vec, IdxArr, SymArray, WholeArr))
        if n in ("Number", "Real", "Integral", "Complex"):
            return isinstance(obj, (int, sp.Basic)) and not isinstance(obj, bool)
        if n in ("Callable",):
            return isinstance(obj, (Closure, Partial))
        if n in ("Sequence",):
            return isinstance(obj, (tuple, list))
        if n in ("NoneType", "Omitted"):
            return obj is None
        self.fail(None, f"isinstance against opaque {c!r}")

    def _elementwise(self, fn):
        I = self

        def f(x, *rest, **kw):
            x = I.as_expr(x)
            if isinstance(x, Vec):
                return x.map(lambda v: fn(I.as_expr(v)))
            if isinstance(x, IdxArr):
                return IdxArr(fn(x.expr), x.n)
            return fn(x)

        return f

    def _make_numpy(self):
        I = self
        ew = self._elementwise

        def array(x, *a, **k):
            if isinstance(x, (tuple, list)):
                return Vec([array(v) if isinstance(v, (tuple, list)) else v for v in x])
            return x

        def asarray_box(x, *a, **k):
            """np.asarray of a scalar term: a 0-d array that may be updated in place"""
            if isinstance(x, (tuple, list)):
                return array(x)
            if isinstance(x, (sp.Basic, int)) and not isinstance(x, bool):
                return WholeArr("arr0d", I.as_expr(x))
            return x

        def _prod(x, axis=None, **kw):
            tot = 1
            for v in I._iterate(x, None):
                tot = I.binop(ast.Mult(), tot, v)
            return tot

        def _like(val):
            def f(x, *a, **k):
                if isinstance(x, Vec):
                    return x.map(lambda _: val)
                if isinstance(x, (SymArray, WholeArr, sp.Basic, int)):
                    return sp.Integer(val)
                I.fail(None, f"np.*_like of {x!r}")

            return f

        def _full_like(x, v, **k):
            return I.as_expr(v)

        def _isclose(a, b, **k):
            try:
                return sp.simplify(I.as_expr(a) - I.as_expr(b)) == 0
            except Exception:  # noqa: BLE001
                return Opaque("isclose")

        def _hypot(a, b):
            return sp.sqrt(I.as_expr(a) ** 2 + I.as_expr(b) ** 2)

        def _arctan2(y, x):
            return sp.atan2(I.as_expr(y), I.as_expr(x))

        def _where(c, a, b):
            return sp.Piecewise((I.as_expr(a), c), (I.as_expr(b), True))

        def _isscalar(x):
            return isinstance(x, (int, sp.Basic)) and not isinstance(x, (Vec,))

        def _empty(shape, *a, **k):
            return Opaque("np.empty()")

        def _zeros(shape, *a, **k):
            shape = to_py(shape)
            if isinstance(shape, int):
                return Vec([0] * shape)
            if isinstance(shape, (tuple, list)) and all(isinstance(to_py(s), int) for s in shape):
                def build(sh):
                    if len(sh) == 1:
                        return Vec([0] * to_py(sh[0]))
                    return Vec([build(sh[1:]) for _ in range(to_py(sh[0]))])

                return build(list(shape))
            return Opaque("np.zeros()")

        def _stack(xs, axis=0):
            return Vec(list(xs))

        def _sign(x):
            return sp.sign(I.as_expr(x))

        def _all(x, **k):
            if isinstance(x, (bool,)):
                return x
            if isinstance(x, sp.Basic):
                return x
            return Opaque("np.all")

        def _arange(*a, **k):
            a = [to_py(x) for x in a]
            if len(a) == 1:
                lo, hi = 0, a[0]
            elif len(a) == 2:
                lo, hi = a
            else:
                I.fail(None, "np.arange with a step")
            if isinstance(lo, int) and isinstance(hi, int):
                return Vec(list(range(lo, hi)))
            return IdxArr(IdxArr.K + lo, hi - lo)

        def _linspace(lo, hi, num=50, endpoint=True, **k):
            if k:
                I.fail(None, f"np.linspace keywords {sorted(k)}")
            lo, hi, num = I.as_expr(lo), I.as_expr(hi), to_py(num)
            den = (num - 1) if to_py(endpoint) else num
            if isinstance(num, int):
                return Vec([lo + (hi - lo) * sp.Rational(j, den) for j in range(num)])
            return IdxArr(lo + (hi - lo) * IdxArr.K / den, num)

        def _seq(x, what):
            if isinstance(x, WholeArr) and isinstance(x.val, (Vec, list, tuple)):
                x = x.val
            if isinstance(x, (Vec, list, tuple)):
                return [I.as_expr(v) for v in x]
            I.fail(None, f"{what} of a sequence of unknown length")

        def _cumulate(op, what):
            def run(x, **k):
                if k:
                    I.fail(None, f"np.{what} keywords {sorted(k)}")
                out, acc = [], None
                for v in _seq(x, f"np.{what}"):
                    acc = v if acc is None else op(acc, v)
                    out.append(acc)
                return Vec(out)

            return run

        def _dot(a, b):
            a, b = _seq(a, "np.dot"), _seq(b, "np.dot")
            if len(a) != len(b):
                I.fail(None, "np.dot of sequences of different length")
            return sum((x * y for x, y in zip(a, b)), sp.Integer(0))

        def _ravel_multi_index(idx, dims, **k):
            if k:
                I.fail(None, f"np.ravel_multi_index keywords {sorted(k)}")
            idx, dims = _seq(idx, "np.ravel_multi_index"), _seq(dims, "np.ravel_multi_index")
            if len(idx) != len(dims):
                I.fail(None, "np.ravel_multi_index: index and shape differ in length")
            out = sp.Integer(0)
            for i, n in zip(idx, dims):
                out = out * n + i
            return sp.expand(out)

        def _unravel_index(k, dims, **kw):
            if kw:
                I.fail(None, f"np.unravel_index keywords {sorted(kw)}")
            dims = _seq(dims, "np.unravel_index")
            return Vec([UNRAVEL(I.as_expr(k), j, *dims) for j in range(len(dims))])

        return {
            "arange": _arange,
            "linspace": _linspace,
            "cumprod": _cumulate(lambda a, b: a * b, "cumprod"),
            "cumsum": _cumulate(lambda a, b: a + b, "cumsum"),
            "dot": _dot,
            "ravel_multi_index": _ravel_multi_index,
            "unravel_index": _unravel_index,
            "pi": sp.pi,
            "e": sp.E,
            "inf": sp.oo,
            "nan": sp.nan,
            "newaxis": None,
            "sqrt": ew(sp.sqrt),
            "sin": ew(sp.sin),
            "cos": ew(sp.cos),
            "tan": ew(sp.tan),
            "sinh": ew(sp.sinh),
            "cosh": ew(sp.cosh),
            "tanh": ew(sp.tanh),
            "exp": ew(sp.exp),
            "log": ew(sp.log),
            "arccos": ew(sp.acos),
            "arcsin": ew(sp.asin),
            "arctan": ew(sp.atan),
            "arctanh": ew(sp.atanh),
            "abs": ew(sp.Abs),
            "absolute": ew(sp.Abs),
            "conjugate": ew(sp.conjugate),
            "conj": ew(sp.conjugate),
            "real": ew(sp.re),
            "square": ew(lambda v: v**2),
            "floor": ew(sp.floor),
            "ceil": ew(sp.ceiling),
            "sign": _sign,
            "hypot": _hypot,
            "arctan2": _arctan2,
            "array": array,
            "asarray": asarray_box,
            "asanyarray": array,
            "moveaxis": lambda x, *a, **k: x,
            "isinf": lambda x: sp.Function("isinf")(I.as_expr(x)) if not is_concrete(I.as_expr(x)) else bool(I.as_expr(x) in (sp.oo, -sp.oo)),
            "empty_like": lambda x, **k: Opaque("np.empty_like()"),
            "atleast_1d": array,
            "ascontiguousarray": array,
            "prod": _prod,
            "zeros_like": _like(0),
            "ones_like": _like(1),
            "full_like": _full_like,
            "isclose": _isclose,
            "allclose": _isclose,
            "isscalar": _isscalar,
            "where": _where,
            "empty": _empty,
            "zeros": _zeros,
            "stack": _stack,
            "all": _all,
            "any": _all,
            "isfinite": lambda x: sp.Function("isfinite")(I.as_expr(x)) if not is_concrete(I.as_expr(x)) else bool(I.as_expr(x).is_finite),
            "isnan": lambda x: sp.Function("isnan")(I.as_expr(x)) if not is_concrete(I.as_expr(x)) else bool(I.as_expr(x) is sp.nan),
            "ndarray": Opaque("np.ndarray"),
            "double": Opaque("np.double"),
            "float64": Opaque("np.float64"),
            "number": Opaque("np.number"),
            "random": Opaque("np.random"),
            "broadcast_to": lambda x, *a, **k: x,
            "iscomplexobj": lambda x: False,
            "isrealobj": lambda x: True,
            "errstate": lambda **k: Opaque("errstate"),
            "maximum": lambda a, b: sp.Max(I.as_expr(a), I.as_expr(b)),
            "minimum": lambda a, b: sp.Min(I.as_expr(a), I.as_expr(b)),
        }

    def _make_math(self):
        I = self
        return {
            "pi": sp.pi,
            "inf": sp.oo,
            "nan": sp.nan,
            "sqrt": lambda x: sp.sqrt(I.as_expr(x)),
            "sin": lambda x: sp.sin(I.as_expr(x)),
            "cos": lambda x: sp.cos(I.as_expr(x)),
            "exp": lambda x: sp.exp(I.as_expr(x)),
            "log": lambda x, *b: sp.log(I.as_expr(x), *[I.as_expr(v) for v in b]),
            "log10": lambda x: sp.log(I.as_expr(x), 10),
            "ceil": lambda x: to_py(sp.ceiling(I.as_expr(x))),
            "floor": lambda x: to_py(sp.floor(I.as_expr(x))),
            "isclose": lambda a, b, **k: sp.simplify(I.as_expr(a) - I.as_expr(b)) == 0,
            "isfinite": lambda x: sp.Function("isfinite")(I.as_expr(x)) if not is_concrete(I.as_expr(x)) else bool(I.as_expr(x).is_finite),
            "prod": lambda xs: self.np["prod"](xs),
            "hypot": lambda a, b: sp.sqrt(I.as_expr(a) ** 2 + I.as_expr(b) ** 2),
            "atan2": lambda y, x: sp.atan2(I.as_expr(y), I.as_expr(x)),
        }


class _Lazy:
    def __init__(self, fn):
        self.fn = fn


class UFunc:
    """uninterpreted function: a call yields ``name(*args)`` as a sympy term"""

    def __init__(self, name: str, on_call: Callable | None = None):
        self.name = name
        self.on_call = on_call

    def __call__(self, interp: Interp, args, kwargs, node):
        if self.on_call is not None:
            return self.on_call(interp, args, kwargs, node)
        ex = []
        for a in args:
            ex.append(interp.as_expr(a, node))
        for k in sorted(kwargs):
            v = kwargs[k]
            if isinstance(v, dict):
                for kk in sorted(v):
                    ex.append(sp.Function(f"kw_{k}_{kk}")(interp.as_expr(v[kk], node)))
            elif v is None:
                continue
            else:
                ex.append(sp.Function(f"kw_{k}")(interp.as_expr(v, node)))
        interp.calls_log.append((self.name, tuple(args), kwargs))
        return sp.Function(self.name)(*ex)


# =============================================================================
# grid models
# =============================================================================
def positive(name: str):
    return sp.Symbol(name, positive=True)


def make_grid_model(index: Index, cls_name: str, num_axes: int, *, periodic=None, dim: int | None = None, rel: str | None = None) -> Model:
    """Symbolic model of a uniform grid: shape N_k, spacing h_k, lower bounds lo_k.
    ``axes_coords[k][i] = lo_k + (i + 1/2) h_k`` is the *documented* cell-centre
    formula; C12 separately checks ``discretize_interval`` against it."""
    cls = None
    for c in index.all_classes():
        if c.name == cls_name and (rel is None or c.module.rel == rel):
            cls = c
            break
    if cls is None:
        raise AnalysisError(f"anchor vanished: grid class {cls_name}")
    N = [sp.Symbol(f"N{k}", integer=True, positive=True) for k in range(num_axes)]
    h = [positive(f"h{k}") for k in range(num_axes)]
    lo = [sp.Symbol(f"lo{k}", real=True) for k in range(num_axes)]
    if cls_name in ("PolarSymGrid", "SphericalSymGrid", "CylindricalSymGrid"):
        lo[0] = sp.Symbol("r_min", nonnegative=True)
    K = IdxArr.K
    coords = tuple(IdxArr(lo[k] + (K + sp.Rational(1, 2)) * h[k], N[k]) for k in range(num_axes))
    bounds = tuple((lo[k], lo[k] + N[k] * h[k]) for k in range(num_axes))
    if periodic is None:
        periodic = [sp.Symbol(f"periodic{k}") for k in range(num_axes)]
    if dim is None:
        dim = {"PolarSymGrid": 2, "SphericalSymGrid": 3, "CylindricalSymGrid": 3}.get(cls_name, num_axes)
    attrs = {
        "shape": tuple(N),
        "discretization": Vec(h),
        "axes_coords": coords,
        "axes_bounds": bounds,
        "num_axes": num_axes,
        "dim": dim,
        "periodic": list(periodic),
        "_shape_full": tuple(n + 2 for n in N),
    }
    return Model(f"grid<{cls_name}/{num_axes}>", attrs, cls=cls)

"""Extraction of the coordinate-system classes (pde/grids/coordinates/*.py) into sympy.

Each ``_pos_to_cart``, ``_pos_from_cart``, ``_mapping_jacobian``, ``_scale_factors``,
``_volume_factor``, ``_cell_volume`` and ``_basis_rotation`` is interpreted from its
syntax tree on a vector of coordinate symbols."""

from __future__ import annotations

import sympy as sp

from .core import AnalysisError
from .fx import Interp, Model, RaisedInCode, Unsupported, Vec, WholeArr
from .index import Index, const_value

COORD_CLASSES = {
    # class name -> (module, symbols with chart-domain assumptions)
    "CartesianCoordinates": "pde/grids/coordinates/cartesian.py",
    "PolarCoordinates": "pde/grids/coordinates/polar.py",
    "SphericalCoordinates": "pde/grids/coordinates/spherical.py",
    "CylindricalCoordinates": "pde/grids/coordinates/cylindrical.py",
    "BipolarCoordinates": "pde/grids/coordinates/bipolar.py",
    "BisphericalCoordinates": "pde/grids/coordinates/bispherical.py",
}


def coord_symbols(clsname: str, axes: list[str]):
    out = []
    for a in axes:
        if a == "r":
            out.append(sp.Symbol("r", positive=True))
        elif a in ("θ",):
            out.append(sp.Symbol("theta", positive=True))
        elif a in ("φ",):
            out.append(sp.Symbol("phi", real=True))
        elif a == "σ":
            out.append(sp.Symbol("sigma", positive=True))
        elif a == "τ":
            out.append(sp.Symbol("tau", real=True))
        else:
            out.append(sp.Symbol(a, real=True))
    return out


def _vec_to_list(v, it):
    if isinstance(v, Vec):
        return [_vec_to_list(x, it) if isinstance(x, Vec) else it.as_expr(x) for x in v.items]
    if isinstance(v, (list, tuple)):
        return [_vec_to_list(x, it) if isinstance(x, (Vec, list, tuple)) else it.as_expr(x) for x in v]
    return it.as_expr(v)


class CoordExtract:
    def __init__(self, ix: Index, clsname: str, dim_arg: int | None = None):
        self.ix = ix
        self.clsname = clsname
        rel = COORD_CLASSES[clsname]
        self.cls = ix.cls(rel, clsname)
        self.rel = rel
        attrs = {}
        if clsname in ("BipolarCoordinates", "BisphericalCoordinates"):
            attrs["scale_parameter"] = sp.Symbol("a_scale", positive=True)
        if clsname == "CartesianCoordinates":
            self.dim = dim_arg or 3
            attrs["dim"] = self.dim
            self.axes = ["x", "y", "z"][: self.dim]
        else:
            d = self.cls.find_attr("dim")
            a = self.cls.find_attr("axes")
            if d is None or a is None:
                raise AnalysisError(f"{clsname}: class attributes dim/axes not found")
            self.dim = const_value(d[1])
            self.axes = const_value(a[1])
        self.q = coord_symbols(clsname, self.axes)
        self.obj = Model(f"coords<{clsname}>", attrs, cls=self.cls)
        self.it = Interp(ix)
        self._patch_numpy(self.it)

    @staticmethod
    def _patch_numpy(it: Interp):
        def norm(v, axis=None, **k):
            items = v.items if isinstance(v, Vec) else list(v)
            return sp.sqrt(sum(it.as_expr(x) ** 2 for x in items))

        it.np["linalg"] = {"norm": norm}
        it.np["mod"] = lambda a, b: sp.Mod(it.as_expr(a), it.as_expr(b))
        it.np["diag"] = lambda m: Vec([m.items[k].items[k] for k in range(len(m.items))])
        it.np["eye"] = lambda n, **k: Vec([Vec([sp.Integer(1 if i == j else 0) for j in range(n)]) for i in range(n)])
        it.np["ones"] = lambda n, **k: Vec([sp.Integer(1)] * n) if isinstance(n, int) else sp.Integer(1)
        it.np["arccosh"] = lambda x: sp.acosh(it.as_expr(x))
        it.np["arcsinh"] = lambda x: sp.asinh(it.as_expr(x))
        it.np["arctanh"] = lambda x: sp.atanh(it.as_expr(x))
        it.np["atleast_1d"] = lambda x: x

        def swapaxes(m, i, j):
            if not (isinstance(m, Vec) and m.items and all(isinstance(r, Vec) for r in m.items)) or {int(i), int(j)} - {0, 1}:
                raise Unsupported("np.swapaxes is only modelled for the two leading axes of a table")
            if int(i) == int(j):
                return m
            return Vec([Vec([m.items[a].items[b] for a in range(len(m.items))]) for b in range(len(m.items[0].items))])

        it.np["swapaxes"] = swapaxes

    def has(self, name: str) -> bool:
        f = self.cls.find_method(name)
        return f is not None and f.cls is not None and f.cls.name != "CoordinatesBase"

    def call(self, name: str, *args):
        try:
            f = self.it.getattr(self.obj, name)
            return self.it.call(f, args, {})
        except (Unsupported, RaisedInCode) as e:
            raise AnalysisError(f"{self.rel}::{self.clsname}.{name}: {e}") from e

    def points(self, syms=None):
        return PointVec(list(syms or self.q))

    # ------------------------------------------------------------------ extracted maps
    def to_cart(self, syms=None):
        return _vec_to_list(self.call("_pos_to_cart", self.points(syms)), self.it)

    def from_cart(self, xs):
        return _vec_to_list(self.call("_pos_from_cart", self.points(xs)), self.it)

    def jacobian(self):
        return sp.Matrix(_vec_to_list(self.call("_mapping_jacobian", self.points()), self.it))

    def scale_factors(self):
        return _vec_to_list(self.call("_scale_factors", self.points()), self.it)

    def volume_factor(self):
        return self.it.as_expr(self.call("_volume_factor", self.points()))

    def cell_volume(self, lo, hi):
        return self.it.as_expr(self.call("_cell_volume", self.points(lo), self.points(hi)))

    def rotation(self):
        return sp.Matrix(_vec_to_list(self.call("_basis_rotation", self.points()), self.it))

    def divisors_of(self, name: str):
        """(divisor, line) of every symbolic division performed while `name` is evaluated at a point"""
        self.it.div_log = []
        try:
            self.call(name, self.points())
            return list(self.it.div_log)
        finally:
            self.it.div_log = None


class PointVec(Vec):
    """a single point: ``points[..., k]`` selects coordinate k"""


def install_point_indexing():
    """teach Interp.getitem about PointVec (Ellipsis is a no-op on a single point)"""
    orig = Interp.getitem

    def getitem(self, base, key, node=None):
        if isinstance(base, PointVec):
            key = tuple(k for k in key if k is not Ellipsis)
            if len(key) == 1 and isinstance(key[0], (list, tuple)):
                return PointVec([base.items[int(i)] for i in key[0]])
        return orig(self, base, key, node)

    if not getattr(Interp, "_pointvec_installed", False):
        Interp.getitem = getitem
        Interp._pointvec_installed = True


install_point_indexing()


# ----------------------------------------------------------------------------
# trig / hyperbolic normal form (Pythagorean ideals) for zero tests
# ----------------------------------------------------------------------------
def zero_test(expr) -> bool:
    """decide expr == 0 for rational functions in symbols and sin/cos/sinh/cosh of atoms"""
    expr = sp.sympify(expr)
    if expr == 0:
        return True
    try:
        e = sp.simplify(expr)
        if e == 0:
            return True
    except Exception:  # noqa: BLE001
        e = expr
    # ideal reduction
    e = sp.together(sp.expand_trig(expr).rewrite(sp.tan, sp.sin))
    num, _ = sp.fraction(e)
    num = sp.expand(num)
    gens, rels = [], []
    subs = {}
    atoms = {a.args[0] for a in num.atoms(sp.sin, sp.cos)}
    for k, a in enumerate(sorted(atoms, key=str)):
        s, c = sp.Symbol(f"_s{k}"), sp.Symbol(f"_c{k}")
        subs[sp.sin(a)] = s
        subs[sp.cos(a)] = c
        rels.append(s**2 + c**2 - 1)
        gens += [s, c]
    hatoms = {a.args[0] for a in num.atoms(sp.sinh, sp.cosh)}
    for k, a in enumerate(sorted(hatoms, key=str)):
        s, c = sp.Symbol(f"_sh{k}"), sp.Symbol(f"_ch{k}")
        subs[sp.sinh(a)] = s
        subs[sp.cosh(a)] = c
        rels.append(c**2 - s**2 - 1)
        gens += [s, c]
    p = num.subs(subs)
    if p.has(sp.sin, sp.cos, sp.sinh, sp.cosh, sp.sqrt) or any(isinstance(a, sp.Pow) and not a.exp.is_Integer for a in p.atoms(sp.Pow)):
        return False
    others = sorted(p.free_symbols - set(gens), key=str)
    if not rels:
        return sp.expand(p) == 0
    try:
        G = sp.groebner(rels, *gens, *others, order="grevlex")
        _, r = sp.reduced(p, list(G.exprs), *gens, *others, order="grevlex")
        return sp.expand(r) == 0
    except Exception:  # noqa: BLE001
        return False

"""setup command: validates that the engines import and the anchors resolve"""

from __future__ import annotations

import sys


def main() -> int:
    import sympy  # noqa: F401

    from .index import get_index

    ix = get_index()
    n = sum(len(m.functions) for m in ix.modules.values())
    print(f"pdelint selfcheck: {len(ix.modules)} modules, {n} functions, {len(ix.all_classes())} classes indexed")
    return 0


if __name__ == "__main__":
    sys.exit(main())

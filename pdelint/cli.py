"""command line entry: ``bin/check <ID> [--tier quick|thorough]`` / ``--replay <path>``"""

from __future__ import annotations

import argparse
import importlib
import json
import os
import sys

from .core import EXIT_ANALYSIS, run_check


def main(argv=None) -> int:
    ap = argparse.ArgumentParser()
    ap.add_argument("pid", nargs="?")
    ap.add_argument("--tier", default=os.environ.get("VERIF_TIER", "quick"), choices=["quick", "thorough"])
    ap.add_argument("--replay")
    a = ap.parse_args(argv)
    if a.replay:
        data = json.load(open(a.replay))
        print(json.dumps(data, indent=1, ensure_ascii=False))
        pid = data["property"]
        print(f"--- re-running check {pid} on {os.environ.get('PDELINT_REPO', '/repo')}")
        return main([pid, "--tier", "quick"])
    if not a.pid:
        ap.error("property id required")
    pid = a.pid.upper()
    os.environ["PDELINT_TIER"] = a.tier  # engines that scale their configuration space with the tier read this
    try:
        mod = importlib.import_module(f"pdelint.props.{pid.lower()}")
    except ModuleNotFoundError:
        print(f"ANALYSIS-ERROR property={pid}: no checker module")
        return EXIT_ANALYSIS
    return run_check(pid, a.tier, mod.check)


if __name__ == "__main__":
    sys.exit(main())

"""gridleaf -- which pieces of a grid's identity does an expression *carry exactly*?

The identity of a grid is the tuple of leaves ``bounds[k][0|1]``, ``shape[k]``,
``periodic[k]``, ``axes[k]``.  Expressions inside grid methods (``slice``, ``state``,
``radius`` ...) are mapped to a small structural domain:

    Leaf(kind, axis, end) | Seq([...]) | Whole(kind) | Gather(kind, over) | Const | Unknown

``Gather(kind, over)`` is ``[self.<kind>[i] for i in <over>]``.  Reader properties such as
``radius`` are evaluated path by path; a path that drops a leaf is accepted only if its
branch condition *implies* an exact value ``leaf == c`` and the constructor fills the
dropped leaf with the same constant ``c`` when handed the collapsed form (exact-collapse
rule).  Everything else is reported by the caller.
"""

from __future__ import annotations

import ast
from dataclasses import dataclass, field
from typing import Any

from .cfg_lite import all_paths
from .core import AnalysisError
from .index import ClassInfo, FuncInfo, Index, const_value, dotted

ATTR_KIND = {
    "axes_bounds": "bounds",
    "_axes_bounds": "bounds",
    "shape": "shape",
    "_shape": "shape",
    "periodic": "periodic",
    "_periodic": "periodic",
    "axes": "axes",
}


@dataclass(frozen=True)
class Leaf:
    kind: str
    axis: Any  # int | "i@<over>"
    end: int | None = None

    def __str__(self):
        return f"{self.kind}[{self.axis}]" + (f"[{self.end}]" if self.end is not None else "")


@dataclass(frozen=True)
class Seq:
    items: tuple

    def __str__(self):
        return "(" + ", ".join(str(i) for i in self.items) + ")"


@dataclass(frozen=True)
class Whole:
    kind: str

    def __str__(self):
        return f"{self.kind}[*]"


@dataclass(frozen=True)
class Gather:
    kind: str
    over: str
    end: int | None = None

    def __str__(self):
        return f"[{self.kind}[i]" + (f"[{self.end}]" if self.end is not None else "") + f" for i in {self.over}]"


@dataclass(frozen=True)
class Const:
    value: Any

    def __str__(self):
        return repr(self.value)


@dataclass(frozen=True)
class Unknown:
    src: str

    def __str__(self):
        return f"?{self.src}"


def pair(axis) -> Seq:
    return Seq((Leaf("bounds", axis, 0), Leaf("bounds", axis, 1)))


def leaves_of(v) -> set:
    if isinstance(v, Leaf):
        return {v}
    if isinstance(v, Seq):
        out = set()
        for i in v.items:
            out |= leaves_of(i)
        return out
    return set()


@dataclass
class Collapse:
    """a reader path that drops leaves"""

    prop: str
    func: FuncInfo
    dropped: list
    condition: str
    exact: dict  # leaf -> constant established by the condition (if any)
    line: int
    problems: list = field(default_factory=list)


class LeafEval:
    def __init__(self, ix: Index, cls: ClassInfo):
        self.ix = ix
        self.cls = cls
        self.collapses: list[Collapse] = []
        self._prop_cache: dict[str, Any] = {}

    # ------------------------------------------------------------------ expressions
    def ev(self, e: ast.AST, env: dict, selfname: str = "self"):
        if isinstance(e, ast.Constant):
            return Const(e.value)
        if isinstance(e, ast.Name):
            return env.get(e.id, Unknown(e.id))
        if isinstance(e, (ast.Tuple, ast.List)):
            return Seq(tuple(self.ev(x, env, selfname) for x in e.elts))
        if isinstance(e, ast.Attribute) and isinstance(e.value, ast.Name) and e.value.id == selfname:
            if e.attr in ATTR_KIND:
                return Whole(ATTR_KIND[e.attr])
            f = self.cls.find_method(e.attr, "getter")
            if f is not None and any(d.split(".")[-1] == "property" for d in f.decorator_names):
                return self.eval_property(e.attr)
            return Unknown(ast.unparse(e))
        if isinstance(e, ast.Subscript):
            base = self.ev(e.value, env, selfname)
            k = e.slice
            kv = const_value(k) if not isinstance(k, ast.Name) else None
            if isinstance(k, ast.UnaryOp):
                return Unknown(ast.unparse(e))
            if isinstance(k, ast.Name) and isinstance(env.get(k.id), _IterVar):
                over = env[k.id].over
                if isinstance(base, Whole):
                    return _GatherElem(base.kind, over)
                return Unknown(ast.unparse(e))
            if isinstance(kv, int) and not isinstance(kv, bool):
                if isinstance(base, Whole):
                    return pair(kv) if base.kind == "bounds" else Leaf(base.kind, kv)
                if isinstance(base, Seq) and -len(base.items) <= kv < len(base.items):
                    return base.items[kv]
                if isinstance(base, _GatherElem) and base.kind == "bounds" and base.end is None and kv in (0, 1):
                    return _GatherElem("bounds", base.over, kv)
            return Unknown(ast.unparse(e))
        if isinstance(e, ast.Call):
            fn = dotted(e.func)
            if fn in ("tuple", "list") and len(e.args) == 1 and not e.keywords:
                return self.ev(e.args[0], env, selfname)
            if fn in ("float", "int", "bool") and len(e.args) == 1:
                return self.ev(e.args[0], env, selfname)
            return Unknown(ast.unparse(e)[:60])
        if isinstance(e, (ast.ListComp, ast.GeneratorExp)) and len(e.generators) == 1 and not e.generators[0].ifs:
            g = e.generators[0]
            if isinstance(g.target, ast.Name) and isinstance(g.iter, ast.Name):
                inner = dict(env)
                inner[g.target.id] = _IterVar(g.iter.id)
                v = self.ev(e.elt, inner, selfname)
                if isinstance(v, _GatherElem):
                    return Gather(v.kind, v.over, v.end)
            return Unknown(ast.unparse(e)[:60])
        return Unknown(ast.unparse(e)[:60])

    # ------------------------------------------------------------------ reader properties
    def eval_property(self, name: str):
        if name in self._prop_cache:
            return self._prop_cache[name]
        f = self.cls.find_method(name, "getter")
        if f is None:
            raise AnalysisError(f"{self.cls.ref}: property {name} not found")
        rets = self.function_returns(f)
        if not rets:
            return Unknown(f"self.{name}")
        all_leaves = set()
        for v, _, _, _ in rets:
            all_leaves |= leaves_of(v)
        result = None
        for v, tests, env, line in rets:
            got = leaves_of(v)
            dropped = sorted(all_leaves - got, key=str)
            if dropped:
                exact = {}
                for test, pol in tests:
                    m = _exact_equality(test, pol, env, self)
                    if m:
                        exact[m[0]] = m[1]
                self.collapses.append(Collapse(name, f, dropped, " and ".join(("" if pol else "not ") + ast.unparse(t) for t, pol in tests), exact, line))
            elif result is None or len(leaves_of(v)) >= len(leaves_of(result)):
                if result is None or _shape_rank(v) >= _shape_rank(result):
                    result = v
        # the value the property stands for: its most complete form (collapses are judged separately)
        result = result if result is not None else Unknown(f"self.{name}")
        self._prop_cache[name] = result
        return result

    def function_returns(self, f: FuncInfo):
        """[(carried value, tests on the path, env, line)] for every returning path"""

        def event(st):
            if isinstance(st, ast.Assign) and len(st.targets) == 1:
                return "assign"
            if isinstance(st, ast.Return):
                return "return"
            return None

        out = []
        for path, oc in all_paths(f.node, event=event):
            if oc != "return":
                continue
            env: dict = {}
            ret = None
            for kind, st in path.events:
                if kind == "assign":
                    self.bind(st.targets[0], self.ev(st.value, env), env)
                elif kind == "return":
                    ret = st
            if ret is None or ret.value is None:
                continue
            out.append((self.ev(ret.value, env), list(path.tests), env, ret.lineno))
        return out

    def bind(self, target: ast.AST, v, env: dict):
        if isinstance(target, ast.Name):
            env[target.id] = v
        elif isinstance(target, (ast.Tuple, ast.List)):
            if isinstance(v, Seq) and len(v.items) == len(target.elts):
                for t, x in zip(target.elts, v.items):
                    self.bind(t, x, env)
            else:
                for t in target.elts:
                    self.bind(t, Unknown(ast.unparse(t)), env)


@dataclass(frozen=True)
class _IterVar:
    over: str


@dataclass(frozen=True)
class _GatherElem:
    kind: str
    over: str
    end: int | None = None


def _shape_rank(v) -> int:
    return len(v.items) if isinstance(v, Seq) else 0


def _exact_equality(test: ast.AST, polarity: bool, env: dict, le: LeafEval):
    """(leaf, constant) if the branch decision implies ``leaf == constant`` exactly"""
    neg = False
    while isinstance(test, ast.UnaryOp) and isinstance(test.op, ast.Not):
        neg = not neg
        test = test.operand
    if not (isinstance(test, ast.Compare) and len(test.ops) == 1):
        # truthiness of a number: `not x` holds exactly when x == 0
        v = le.ev(test, env)
        if isinstance(v, Leaf) and (polarity == neg):
            return v, 0
        return None
    op = test.ops[0]
    if isinstance(op, ast.Eq):
        holds = polarity != neg
    elif isinstance(op, ast.NotEq):
        holds = polarity == neg
    else:
        return None
    if not holds:
        return None
    l, r = le.ev(test.left, env), le.ev(test.comparators[0], env)
    if isinstance(l, Leaf) and isinstance(r, Const) and isinstance(r.value, (int, float)) and not isinstance(r.value, bool):
        return l, r.value
    if isinstance(r, Leaf) and isinstance(l, Const) and isinstance(l.value, (int, float)) and not isinstance(l.value, bool):
        return r, l.value
    return None


# ----------------------------------------------------------------------------- constructor side
def constructor_defaults(ix: Index, cls: ClassInfo, param: str) -> dict:
    """for constructor parameter ``param`` that may be given in collapsed (scalar) form:
    the constants the constructor fills the missing leaves with.  Recognised idiom:

        try:    a, b = <param>
        except TypeError: a, b = (<const>, f(<param>))

    followed by ``self._axes_bounds = ((a, b), ...)``.  Returns {Leaf: constant}."""
    init = cls.find_method("__init__")
    if init is None:
        raise AnalysisError(f"{cls.ref}: no __init__")
    out: dict = {}
    for node in ast.walk(init.node):
        if not isinstance(node, ast.Try):
            continue
        full = [s for s in node.body if isinstance(s, ast.Assign) and isinstance(s.targets[0], ast.Tuple) and isinstance(s.value, ast.Name) and s.value.id == param]
        if len(full) != 1:
            continue
        names = [t.id for t in full[0].targets[0].elts if isinstance(t, ast.Name)]
        for h in node.handlers:
            hn = dotted(h.type) if h.type is not None else ""
            if hn not in ("TypeError", "(TypeError, ValueError)") and "TypeError" not in hn:
                continue
            for s in h.body:
                if isinstance(s, ast.Assign) and isinstance(s.targets[0], ast.Tuple) and isinstance(s.value, ast.Tuple) and len(s.value.elts) == len(names):
                    tn = [t.id for t in s.targets[0].elts if isinstance(t, ast.Name)]
                    if tn != names:
                        continue
                    consts = {}
                    for nm, v in zip(tn, s.value.elts):
                        if isinstance(v, ast.Constant):
                            consts[nm] = v.value
                        elif not any(isinstance(x, ast.Name) and x.id == param for x in ast.walk(v)):
                            consts[nm] = ("non-constant", ast.unparse(v))
                    # where do the names go?
                    for a in ast.walk(init.node):
                        if isinstance(a, ast.Assign) and any(isinstance(t, ast.Attribute) and t.attr == "_axes_bounds" for t in a.targets) and isinstance(a.value, ast.Tuple):
                            for k, el in enumerate(a.value.elts):
                                if isinstance(el, ast.Tuple):
                                    for end, x in enumerate(el.elts):
                                        if isinstance(x, ast.Name) and x.id in consts:
                                            out[Leaf("bounds", k, end)] = consts[x.id]
    if out:
        return out
    # second idiom: `if isinstance(<param>, T): a, b = <param>  else: a, b = (<const>, f(<param>))`
    for node in ast.walk(init.node):
        if not (isinstance(node, ast.If) and isinstance(node.test, ast.Call) and dotted(node.test.func) == "isinstance" and len(node.test.args) == 2 and isinstance(node.test.args[0], ast.Name) and node.test.args[0].id == param):
            continue
        full = [s_ for s_ in node.body if isinstance(s_, ast.Assign) and isinstance(s_.targets[0], ast.Tuple) and isinstance(s_.value, ast.Name) and s_.value.id == param]
        dflt = [s_ for s_ in node.orelse if isinstance(s_, ast.Assign) and isinstance(s_.targets[0], ast.Tuple) and isinstance(s_.value, ast.Tuple)]
        if len(full) != 1 or len(dflt) != 1:
            continue
        types = {dotted(x).split(".")[-1] for x in (node.test.args[1].elts if isinstance(node.test.args[1], ast.Tuple) else [node.test.args[1]])}
        if not (types & {"Sequence", "Iterable", "Collection"} or {"tuple", "list"} <= types):
            out["__narrow__"] = f"the full form of `{param}` is recognised by `isinstance({param}, {ast.unparse(node.test.args[1])})` only: the JSON form of the state hands a list, which is taken for the collapsed (scalar) form"
        names = [t.id for t in full[0].targets[0].elts if isinstance(t, ast.Name)]
        tn = [t.id for t in dflt[0].targets[0].elts if isinstance(t, ast.Name)]
        if tn != names or len(dflt[0].value.elts) != len(names):
            continue
        consts = {}
        for nm, v in zip(tn, dflt[0].value.elts):
            if isinstance(v, ast.Constant):
                consts[nm] = v.value
        for a in ast.walk(init.node):
            if isinstance(a, ast.Assign) and any(isinstance(t, ast.Attribute) and t.attr == "_axes_bounds" for t in a.targets) and isinstance(a.value, ast.Tuple):
                for k, el in enumerate(a.value.elts):
                    if isinstance(el, ast.Tuple):
                        for end, x in enumerate(el.elts):
                            if isinstance(x, ast.Name) and x.id in consts:
                                out[Leaf("bounds", k, end)] = consts[x.id]
    return out

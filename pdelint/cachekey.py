"""E6 -- cache-key and captured-address analysis.

Everything here is read off the syntax trees of ``<repo>/pde``:

* :func:`read_key_model` reads ``tools/cache.py`` itself: the dispatch order of
  ``hash_mutable`` (hook -> containers -> ndarray bytes -> ``hash(obj)`` -> buffer ->
  ``obj.__dict__`` fallback), the key filter applied to mapping keys, whether the
  fallback expression depends on the class of the object, and how the decorator's
  ``wrapper`` assembles a key (``args``, ``kwargs`` minus ``ignore_args``,
  ``extra_args``) and where it stores results (``obj._cache_methods``).
* :func:`cached_sites` inventories every ``@cached_method/@cached_property``.
* :class:`KeyAnalysis` classifies what an annotated argument type contributes to a
  key (closure over subclasses and over the attributes the fallback recurses into).
* :class:`CaptureAnalysis` follows resolved calls from a cached method (passing
  ``self`` or a keyed argument) to the places where the address of an array is read
  (``.ctypes``, ``__array_interface__``).
* helpers for re-bind / invalidation reasoning on statement lists.

Nothing is imported or executed from the repository.
"""

from __future__ import annotations

import ast
from dataclasses import dataclass, field

from .core import AnalysisError
from .index import ClassInfo, FuncInfo, Index, ModuleInfo, dotted, strip_doc

CACHE_MODULE = "pde/tools/cache.py"
DECORATORS = ("cached_method", "cached_property")

# attribute reads that expose the memory address of an array
ADDRESS_ATTRS = ("ctypes", "__array_interface__")


# =====================================================================================
# small syntax helpers
# =====================================================================================
def walk_no_classes(node: ast.AST):
    """ast.walk that does not enter nested class definitions"""
    todo = [node]
    while todo:
        n = todo.pop()
        yield n
        for c in ast.iter_child_nodes(n):
            if isinstance(c, ast.ClassDef):
                continue
            todo.append(c)


def walk_own(node: ast.AST):
    """ast.walk that neither enters nested classes nor nested function definitions"""
    todo = list(ast.iter_child_nodes(node))
    while todo:
        n = todo.pop()
        if isinstance(n, (ast.ClassDef, ast.FunctionDef, ast.AsyncFunctionDef, ast.Lambda)):
            continue
        yield n
        todo.extend(ast.iter_child_nodes(n))


def is_name(node: ast.AST, name: str) -> bool:
    return isinstance(node, ast.Name) and node.id == name


def is_attr_of(node: ast.AST, base: str, attr: str | None = None) -> bool:
    return isinstance(node, ast.Attribute) and is_name(node.value, base) and (attr is None or node.attr == attr)


def is_call_to(node: ast.AST, fname: str) -> bool:
    return isinstance(node, ast.Call) and dotted(node.func).split(".")[-1] == fname


def first_param(f: FuncInfo) -> str | None:
    a = f.node.args
    params = a.posonlyargs + a.args
    return params[0].arg if params else None


def mangle(attr: str, clsname: str | None) -> str:
    """private name mangling of ``self.__x`` inside class ``clsname``"""
    if clsname and attr.startswith("__") and not attr.endswith("__"):
        return f"_{clsname.lstrip('_')}{attr}"
    return attr


def display_name(f: FuncInfo) -> str:
    """qualname without the index' ``#n`` suffix; property setters as ``C.x.setter``"""
    qn = f.qualname.split("#")[0]
    for d in f.decorator_names:
        if d.endswith(".setter") or d.endswith(".deleter"):
            return f"{qn}.{d.rsplit('.', 1)[1]}"
    return qn


def display_ref(f: FuncInfo) -> str:
    return f"{f.module.rel}::{display_name(f)}"


def is_property(f: FuncInfo | None) -> bool:
    if f is None:
        return False
    return any(d.split(".")[-1] in ("property", "cached_property") for d in f.decorator_names)


def local_imports(ix: Index, f: FuncInfo) -> dict[str, str]:
    """imports executed inside a function body (``from ..backends import get_backend``)"""
    m = f.module
    is_pkg = m.path.name == "__init__.py"
    pkg_parts = m.modname.split(".") if is_pkg else m.modname.split(".")[:-1]
    out: dict[str, str] = {}
    top = f
    while top.parent is not None:
        top = top.parent
    for n in walk_no_classes(top.node):
        if isinstance(n, ast.ImportFrom):
            if n.level:
                base = pkg_parts[: len(pkg_parts) - (n.level - 1)]
                mod = ".".join(base + ([n.module] if n.module else []))
            else:
                mod = n.module or ""
            for a in n.names:
                out[a.asname or a.name] = f"{mod}.{a.name}"
        elif isinstance(n, ast.Import):
            for a in n.names:
                out[a.asname or a.name.split(".")[0]] = a.name if a.asname else a.name.split(".")[0]
    return out


def star_modules(ix: Index, m: ModuleInfo) -> list[ModuleInfo]:
    """modules whose public names are re-exported by ``from .x import *``"""
    is_pkg = m.path.name == "__init__.py"
    pkg_parts = m.modname.split(".") if is_pkg else m.modname.split(".")[:-1]
    out = []
    for st in m.tree.body:
        if isinstance(st, ast.ImportFrom) and any(a.name == "*" for a in st.names):
            if st.level:
                base = pkg_parts[: len(pkg_parts) - (st.level - 1)]
                mod = ".".join(base + ([st.module] if st.module else []))
            else:
                mod = st.module or ""
            if mod in ix.by_modname:
                out.append(ix.by_modname[mod])
    return out


def resolve_name(ix: Index, m: ModuleInfo, name: str, _depth: int = 0):
    """Index.resolve_name that also follows star re-exports of packages"""
    r = ix.resolve_name(m, name)
    if r is not None or _depth > 6:
        return r
    head, _, rest = name.partition(".")
    if head in m.imports and head != "*":
        return resolve_dotted(ix, m.imports[head] + ("." + rest if rest else ""), _depth + 1)
    for sm in star_modules(ix, m):
        r = resolve_name(ix, sm, name, _depth + 1)
        if r is not None:
            return r
    return None


def resolve_dotted(ix: Index, full: str, _depth: int = 0):
    r = ix.resolve_dotted(full)
    if r is not None or _depth > 6:
        return r
    parts = full.split(".")
    for k in range(len(parts) - 1, 0, -1):
        modname = ".".join(parts[:k])
        if modname in ix.by_modname:
            return resolve_name(ix, ix.by_modname[modname], ".".join(parts[k:]), _depth + 1)
    return None


def resolve_in_func(ix: Index, f: FuncInfo, name: str):
    """resolve a (dotted) name used inside function ``f``: function-local imports first,
    then the module table"""
    head, _, rest = name.partition(".")
    loc = local_imports(ix, f)
    if head in loc:
        return resolve_dotted(ix, loc[head] + ("." + rest if rest else ""))
    return resolve_name(ix, f.module, name)


# =====================================================================================
# 1. how a key is built: read tools/cache.py
# =====================================================================================
@dataclass
class KeyModel:
    func: FuncInfo
    obj: str
    hook: str | None = None  # method consulted first (``_cache_hash``)
    order: list[str] = field(default_factory=list)  # printable dispatch order
    containers: dict[str, str] = field(default_factory=dict)  # type name -> elements|items|content|fields
    filter_prefix: str | None = None  # mapping keys with this prefix do not enter the key
    tries_hash: bool = False
    hash_line: int | None = None
    fallback: bool = False  # ``obj.__dict__`` fallback exists
    fallback_class_sensitive: bool = False
    fallback_expr: str = ""
    fallback_line: int | None = None
    # decorator
    wrapper: FuncInfo | None = None
    store_attr: str = ""
    key_parts: set[str] = field(default_factory=set)
    ignore_filters_kwargs_only: bool = False
    default_hash_function: str = ""

    def numbers_reach_builtin_hash(self) -> bool:
        """numbers are keyed by ``hash(obj)``, which is not injective (``hash(-1) ==
        hash(-2)``, ``hash(-1.0) == hash(-2.0)``), unless an earlier branch for the numeric
        tower hashes an injective representation"""
        if not self.tries_hash:
            return False
        handled = {n for n, mode in self.containers.items() if n in NUMBER_TYPE_NAMES and mode != "hash"}
        return not ("Number" in handled or "Complex" in handled or {"int", "float", "complex"} <= handled or {"Real", "complex"} <= handled)

    def describe(self) -> dict:
        return {
            "dispatch_order": self.order,
            "numbers_keyed_by_builtin_hash": self.numbers_reach_builtin_hash(),
            "mapping_key_filter_prefix": self.filter_prefix,
            "fallback": self.fallback_expr,
            "fallback_depends_on_class": self.fallback_class_sensitive,
            "store": f"obj.{self.store_attr}[name][key]",
            "key_parts": sorted(self.key_parts),
            "ignore_args_filters_keyword_arguments_only": self.ignore_filters_kwargs_only,
            "default_hash_function": self.default_hash_function,
        }


def _contains(node: ast.AST, pred) -> bool:
    return any(pred(n) for n in ast.walk(node))


def _type_names(node: ast.AST, aliases: dict[str, ast.expr]) -> list[str]:
    if isinstance(node, ast.Tuple):
        out: list[str] = []
        for e in node.elts:
            out += _type_names(e, aliases)
        return out
    if isinstance(node, ast.Name) and node.id in aliases:
        return _type_names(aliases[node.id], aliases)
    if isinstance(node, (ast.Name, ast.Attribute)):
        return [dotted(node).split(".")[-1]]
    raise AnalysisError(f"hash_mutable: cannot read the type list of an isinstance test: {ast.unparse(node)}")


def _filter_prefix_of(comp: ast.AST) -> str | None:
    """prefix of mapping keys excluded by the comprehension's condition, None if there is
    no condition; a condition outside the grammar is an analysis error"""
    conds = [c for g in comp.generators for c in g.ifs]
    if not conds:
        return None
    prefixes = []
    for c in conds:
        found = None
        for n in ast.walk(c):
            if isinstance(n, ast.Call) and isinstance(n.func, ast.Attribute) and n.func.attr == "startswith":
                if len(n.args) == 1 and isinstance(n.args[0], ast.Constant) and isinstance(n.args[0].value, str):
                    found = n.args[0].value
        negated = isinstance(c, ast.UnaryOp) and isinstance(c.op, ast.Not)
        if found is None or not negated:
            raise AnalysisError(f"hash_mutable: mapping key filter outside the grammar: {ast.unparse(c)}")
        prefixes.append(found)
    if len(set(prefixes)) != 1:
        raise AnalysisError(f"hash_mutable: several mapping key filters: {prefixes}")
    return prefixes[0]


TEXT_FUNCTIONS = {"repr", "str", "format", "float_repr", "dumps"}
TEXT_METHODS = {"hex", "to_bytes", "as_integer_ratio", "__repr__", "__str__", "tobytes"}
NUMBER_TYPE_NAMES = {"Number", "Real", "Complex", "Integral", "int", "float", "complex", "number", "floating", "integer", "inexact", "generic"}
FLOATY_NAMES = {"Number", "Real", "Complex", "float", "complex", "number", "floating", "inexact", "complexfloating", "generic"}


def _branch_mode(value: ast.AST, obj: str) -> tuple[str, str | None]:
    """how the returned expression of an isinstance branch uses the object"""
    for n in ast.walk(value):
        if isinstance(n, (ast.GeneratorExp, ast.ListComp, ast.SetComp, ast.DictComp)):
            it = n.generators[0].iter
            if _contains(it, lambda x: isinstance(x, ast.Call) and is_attr_of(x.func, obj, "items")):
                return "items", _filter_prefix_of(n)
            if is_name(it, obj) or (isinstance(it, ast.Call) and any(is_name(a, obj) for a in it.args)):
                return "elements", None
    if _contains(value, lambda x: isinstance(x, ast.Call) and is_attr_of(x.func, obj, "tobytes")):
        return "content", None
    raw_hash = _contains(value, lambda x: isinstance(x, ast.Call) and is_name(x.func, "hash") and len(x.args) == 1 and is_name(x.args[0], obj))
    textual = _contains(
        value,
        lambda x: isinstance(x, ast.Call)
        and ((dotted(x.func).split(".")[-1] in TEXT_FUNCTIONS and x.args and is_name(x.args[0], obj)) or (is_attr_of(x.func, obj) and x.func.attr in TEXT_METHODS)),
    )
    if textual and not raw_hash:
        return "text", None  # an injective textual / binary representation is hashed
    if raw_hash:
        return "hash", None
    names = [n for n in ast.walk(value) if is_name(n, obj)]
    attrs = [n for n in ast.walk(value) if is_attr_of(n, obj)]
    if names and len(names) == len(attrs):
        return "fields", None
    raise AnalysisError(f"hash_mutable: cannot tell how `{ast.unparse(value)}` uses the object")


def read_key_model(ix: Index) -> KeyModel:
    f = ix.func(CACHE_MODULE, "hash_mutable")
    obj = first_param(f)
    if obj is None:
        raise AnalysisError("hash_mutable has no parameter")
    km = KeyModel(func=f, obj=obj)
    aliases: dict[str, ast.expr] = {}
    prefixes: dict[str, str | None] = {}

    def with_local_defs(value: ast.AST, block: list[ast.stmt]) -> list[ast.AST]:
        """the expression plus the right-hand sides of the local names it uses (hoisted
        sub-expressions), transitively within the statement list"""
        exprs = [value]
        seen: set[str] = set()
        i = 0
        while i < len(exprs):
            for n in ast.walk(exprs[i]):
                if isinstance(n, ast.Name) and n.id != obj and n.id not in seen:
                    seen.add(n.id)
                    for st in block:
                        if isinstance(st, ast.Assign) and any(is_name(t, n.id) for t in st.targets):
                            exprs.append(st.value)
            i += 1
        return exprs

    def on_return(value: ast.AST | None, block: list[ast.stmt], st: ast.stmt) -> None:
        if value is None:
            raise AnalysisError("hash_mutable: bare return")
        exprs = with_local_defs(value, block)

        def has(pred) -> bool:
            return any(pred(n) for e in exprs for n in ast.walk(e))

        if has(lambda x: is_attr_of(x, obj, "__dict__") or (is_call_to(x, "vars") and x.args and is_name(x.args[0], obj))):
            km.fallback = True
            km.fallback_expr = ast.unparse(value)
            km.fallback_class_sensitive = has(
                lambda x: is_attr_of(x, obj, "__class__") or (isinstance(x, ast.Call) and is_name(x.func, "type") and len(x.args) == 1 and is_name(x.args[0], obj))
            )
            km.fallback_line = st.lineno
            km.order.append("fallback:obj.__dict__" + ("+class" if km.fallback_class_sensitive else ""))
        elif has(lambda x: isinstance(x, ast.Call) and is_name(x.func, "hash") and len(x.args) == 1 and is_name(x.args[0], obj)):
            km.tries_hash = True
            km.hash_line = st.lineno
            km.order.append("hash(obj)")
        elif has(lambda x: isinstance(x, ast.Call) and x.args and is_name(x.args[0], obj)):
            # e.g. sha1(obj): objects exposing the buffer protocol are hashed by content
            km.order.append("buffer:" + ast.unparse(value))
        else:
            raise AnalysisError(f"hash_mutable: unconditional return outside the grammar: {ast.unparse(value)}")

    def walk(stmts: list[ast.stmt]) -> None:
        for st in strip_doc(stmts):
            if isinstance(st, ast.Expr):
                continue  # logging and the like
            if isinstance(st, ast.Assign) and len(st.targets) == 1 and isinstance(st.targets[0], ast.Name):
                aliases[st.targets[0].id] = st.value
                continue
            if isinstance(st, ast.If):
                t = st.test
                rets = [s for s in st.body if isinstance(s, ast.Return)]
                if is_call_to(t, "hasattr") and len(t.args) == 2 and is_name(t.args[0], obj) and isinstance(t.args[1], ast.Constant):
                    hook = t.args[1].value
                    if not rets or not _contains(rets[0].value, lambda x: isinstance(x, ast.Call) and is_attr_of(x.func, obj, hook)):
                        raise AnalysisError(f"hash_mutable: hasattr({obj}, {hook!r}) branch does not return {obj}.{hook}()")
                    if km.hook is not None:
                        raise AnalysisError("hash_mutable: several hook methods")
                    km.hook = hook
                    km.order.append(f"hook:{hook}")
                elif is_call_to(t, "isinstance") and len(t.args) == 2 and is_name(t.args[0], obj):
                    if not rets:
                        raise AnalysisError(f"hash_mutable: isinstance branch without return: {ast.unparse(t)}")
                    names = _type_names(t.args[1], aliases)
                    mode, prefix = _branch_mode(rets[0].value, obj)
                    for n in names:
                        km.containers.setdefault(n, mode)
                        if mode == "items":
                            prefixes.setdefault(n, prefix)
                    km.order.append(f"{mode}:{','.join(names)}")
                else:
                    raise AnalysisError(f"hash_mutable: test outside the grammar: {ast.unparse(t)}")
                walk(st.orelse)
                continue
            if isinstance(st, ast.Try):
                walk(st.body)
                for h in st.handlers:
                    walk(h.body)
                walk(st.orelse)
                walk(st.finalbody)
                continue
            if isinstance(st, ast.Return):
                on_return(st.value, stmts, st)
                continue
            raise AnalysisError(f"hash_mutable: statement outside the grammar at line {st.lineno}: {type(st).__name__}")

    walk(f.node.body)
    if "dict" in prefixes:
        km.filter_prefix = prefixes["dict"]
    elif km.fallback:
        raise AnalysisError("hash_mutable: the __dict__ fallback recurses into a dict, but no dict branch was found")
    if len({p for p in prefixes.values()}) > 1:
        raise AnalysisError(f"hash_mutable: mapping branches filter keys differently: {prefixes}")
    _read_decorator(ix, km)
    return km


def _read_decorator(ix: Index, km: KeyModel) -> None:
    """key composition and result store of ``_class_cache._get_wrapped_function.wrapper``"""
    outer = ix.func(CACHE_MODULE, "_class_cache._get_wrapped_function")
    w = ix.func(CACHE_MODULE, "_class_cache._get_wrapped_function.wrapper")
    init = ix.func(CACHE_MODULE, "_class_cache.__init__")
    ser = ix.func(CACHE_MODULE, "make_serializer")
    km.wrapper = w
    obj = first_param(w)
    a = w.node.args
    if obj is None or a.vararg is None or a.kwarg is None:
        raise AnalysisError("cache wrapper: expected signature (obj, *args, **kwargs)")
    var, kw = a.vararg.arg, a.kwarg.arg
    # result store: obj.<store>[self.name]
    stores = {
        n.value.attr
        for n in ast.walk(w.node)
        if isinstance(n, ast.Subscript) and is_attr_of(n.value, obj) and _contains(n.slice, lambda x: isinstance(x, ast.Attribute) and x.attr == "name")
    }
    if len(stores) != 1:
        raise AnalysisError(f"cache wrapper: cannot identify the per-object result store: {sorted(stores)}")
    km.store_attr = stores.pop()
    # serializer used for the key
    hk = None
    for st in outer.node.body:
        if isinstance(st, ast.Assign) and is_call_to(st.value, "make_serializer") and isinstance(st.targets[0], ast.Name):
            if not _contains(st.value, lambda x: isinstance(x, ast.Attribute) and x.attr == "hash_function"):
                raise AnalysisError("cache wrapper: serializer is not derived from self.hash_function")
            hk = st.targets[0].id
    if hk is None:
        raise AnalysisError("cache wrapper: key serializer not found")
    key_calls = [n for n in ast.walk(w.node) if isinstance(n, ast.Call) and is_name(n.func, hk)]
    if len(key_calls) != 1:
        raise AnalysisError("cache wrapper: expected exactly one key computation")
    # names flowing into the key (flow-insensitive closure over local definitions)
    defs: dict[str, list[ast.AST]] = {}
    for n in ast.walk(w.node):
        if isinstance(n, ast.Assign):
            for t in n.targets:
                if isinstance(t, ast.Name):
                    defs.setdefault(t.id, []).append(n.value)
        elif isinstance(n, ast.Call) and isinstance(n.func, ast.Attribute) and n.func.attr in ("append", "extend", "insert") and isinstance(n.func.value, ast.Name):
            defs.setdefault(n.func.value.id, []).extend(n.args)
        elif isinstance(n, ast.For) and isinstance(n.target, ast.Name):
            defs.setdefault(n.target.id, []).append(n.iter)
    reach_exprs: list[ast.AST] = list(key_calls[0].args)
    seen: set[str] = set()
    i = 0
    while i < len(reach_exprs):
        for n in ast.walk(reach_exprs[i]):
            if isinstance(n, ast.Name) and n.id not in seen:
                seen.add(n.id)
                reach_exprs.extend(defs.get(n.id, []))
        i += 1
    if var in seen:
        km.key_parts.add("args")
    if kw in seen:
        km.key_parts.add("kwargs")
    if any(is_call_to(n, "getattr") and n.args and is_name(n.args[0], obj) for e in reach_exprs for n in ast.walk(e)) and any(
        isinstance(n, ast.Attribute) and n.attr == "extra_args" for e in reach_exprs for n in ast.walk(e)
    ):
        km.key_parts.add("extra_args")
    # ignore_args: a comprehension over kwargs.items() filtered by self.ignore_args
    for e in reach_exprs:
        for n in ast.walk(e):
            if isinstance(n, ast.DictComp) and _contains(n.generators[0].iter, lambda x: is_attr_of(x, kw, "items")):
                if _contains(n, lambda x: isinstance(x, ast.Attribute) and x.attr == "ignore_args"):
                    km.key_parts.add("ignore_args")
                    km.ignore_filters_kwargs_only = True
    # default hash function and its meaning
    ia = init.node.args
    names = [p.arg for p in ia.args]
    defaults = dict(zip(names[len(names) - len(ia.defaults) :], ia.defaults))
    d = defaults.get("hash_function")
    if not (isinstance(d, ast.Constant) and isinstance(d.value, str)):
        raise AnalysisError("_class_cache.__init__: default of hash_function is not a string constant")
    km.default_hash_function = d.value
    ok = False
    for st in ser.node.body:
        if isinstance(st, ast.If) and isinstance(st.test, ast.Compare) and len(st.test.comparators) == 1:
            c = st.test.comparators[0]
            if isinstance(c, ast.Constant) and c.value == "hash_mutable" and st.body and isinstance(st.body[0], ast.Return):
                ok = is_name(st.body[0].value, km.func.node.name)
    if not ok:
        raise AnalysisError("make_serializer: 'hash_mutable' does not select hash_mutable")


# =====================================================================================
# 2. inventory of cached sites
# =====================================================================================
@dataclass
class Param:
    name: str
    kind: str  # pos | kwonly | vararg | kwarg
    annotation: ast.expr | None


@dataclass(eq=False)
class Site:
    func: FuncInfo
    kind: str  # cached_method | cached_property
    extra_args: list[str]
    ignore_args: list[str]
    factory: str | None
    hash_function: str | None
    cache_name: str
    params: list[Param]

    @property
    def ref(self) -> str:
        return display_ref(self.func)

    @property
    def cls(self) -> ClassInfo | None:
        return self.func.cls


def _literal(node: ast.expr, what: str, site: str):
    try:
        return ast.literal_eval(node)
    except Exception as e:  # noqa: BLE001
        raise AnalysisError(f"{site}: decorator argument `{what}` is not a literal: {ast.unparse(node)}") from e


def cached_sites(ix: Index) -> list[Site]:
    cache_mod = ix.module(CACHE_MODULE)
    for d in DECORATORS:
        ix.cls(CACHE_MODULE, d)  # anchors
    sites = []
    for f in ix.all_functions():
        for d in f.node.decorator_list:
            target = d.func if isinstance(d, ast.Call) else d
            name = dotted(target)
            last = name.split(".")[-1]
            if last not in DECORATORS:
                continue
            r = resolve_name(ix, f.module, name)
            if not (isinstance(r, ClassInfo) and r.module is cache_mod):
                if f.module is cache_mod:
                    continue
                raise AnalysisError(f"{f.ref}: decorator `{name}` does not resolve to {CACHE_MODULE}")
            if not isinstance(d, ast.Call):
                raise AnalysisError(f"{f.ref}: `@{name}` used without call (raises TypeError at import)")
            if f.cls is None:
                raise AnalysisError(f"{f.ref}: cached decorator on something that is not a method")
            kwargs = {k.arg: k.value for k in d.keywords if k.arg}
            pos_names = ["factory", "extra_args", "ignore_args", "hash_function", "doc", "name"]
            for i, a in enumerate(d.args):
                kwargs[pos_names[i]] = a
            if any(k.arg is None for k in d.keywords):
                raise AnalysisError(f"{f.ref}: decorator called with **kwargs")
            site = display_ref(f)

            def strs(key: str) -> list[str]:
                if key not in kwargs:
                    return []
                v = _literal(kwargs[key], key, site)
                if v is None:
                    return []
                if isinstance(v, str):
                    return [v]
                return [str(x) for x in v]

            fac = _literal(kwargs["factory"], "factory", site) if "factory" in kwargs else None
            hf = _literal(kwargs["hash_function"], "hash_function", site) if "hash_function" in kwargs else None
            nm = _literal(kwargs["name"], "name", site) if "name" in kwargs else None
            a = f.node.args
            params = [Param(p.arg, "pos", p.annotation) for p in (a.posonlyargs + a.args)[1:]]
            params += [Param(p.arg, "kwonly", p.annotation) for p in a.kwonlyargs]
            if a.vararg:
                params.append(Param(a.vararg.arg, "vararg", a.vararg.annotation))
            if a.kwarg:
                params.append(Param(a.kwarg.arg, "kwarg", a.kwarg.annotation))
            sites.append(
                Site(
                    func=f,
                    kind=last,
                    extra_args=strs("extra_args"),
                    ignore_args=strs("ignore_args"),
                    factory=fac,
                    hash_function=hf,
                    cache_name=nm or f.node.name,
                    params=params,
                )
            )
    sites.sort(key=lambda s: s.ref)
    return sites


# =====================================================================================
# 3. class facts: instance attributes, properties, __eq__ / hook chains
# =====================================================================================
@dataclass
class AttrInfo:
    name: str  # storage name (mangled)
    hints: list = field(default_factory=list)  # ClassInfo | (ModuleInfo, ast.expr)
    assigned_in: list[FuncInfo] = field(default_factory=list)


@dataclass
class ChainFacts:
    """what a method (following ``super().<same method>()``) reads from ``self``"""

    definers: list[FuncInfo] = field(default_factory=list)
    attrs: set[str] = field(default_factory=set)  # raw attribute names (mangled)
    uses_class: bool = False
    uses_dict: bool = False
    identity_of: set[str] = field(default_factory=set)  # attrs whose address/identity is read
    complete: bool = True  # False: super() call that could not be followed


class ClassFacts:
    def __init__(self, ix: Index):
        self.ix = ix
        self._inst: dict[ClassInfo, dict[str, AttrInfo]] = {}

    # ------------------------------------------------------------ hierarchy
    def family(self, cls: ClassInfo) -> list[ClassInfo]:
        out = list(cls.mro())
        for c in self.ix.subclasses(cls, strict=True):
            if c not in out:
                out.append(c)
        return out

    def is_abstract(self, cls: ClassInfo) -> bool:
        names = {n for c in cls.mro() for n in c.methods}
        for n in names:
            f = cls.find_method(n) or cls.find_method(n, "setter")
            if f is not None and any(d.split(".")[-1] in ("abstractmethod", "abstractproperty") for d in f.decorator_names):
                return True
        return False

    def external_bases(self, cls: ClassInfo) -> set[str]:
        known = {c.name for c in cls.mro()}
        out = set()
        for c in cls.mro():
            for b in c.base_exprs:
                n = b.split("[")[0].split(".")[-1]
                if n not in known:
                    out.add(n)
        return out

    # ------------------------------------------------------------ instance attributes
    def inst_attrs(self, cls: ClassInfo) -> dict[str, AttrInfo]:
        """storage attributes assigned on ``self`` by any method found on the MRO"""
        if cls in self._inst:
            return self._inst[cls]
        out: dict[str, AttrInfo] = {}
        for c in cls.mro():
            for defs in c.methods.values():
                for f in defs:
                    me = first_param(f)
                    if me is None or any(d in ("staticmethod", "classmethod") for d in f.decorator_names):
                        continue
                    ann = {p.arg: p.annotation for p in f.node.args.posonlyargs + f.node.args.args + f.node.args.kwonlyargs}
                    for n in walk_no_classes(f.node):
                        targets: list[tuple[ast.expr, ast.expr | None, ast.expr | None]] = []
                        if isinstance(n, ast.Assign):
                            for t in n.targets:
                                for e in t.elts if isinstance(t, (ast.Tuple, ast.List)) else [t]:
                                    targets.append((e, n.value if e is t else None, None))
                        elif isinstance(n, ast.AnnAssign):
                            targets.append((n.target, n.value, n.annotation))
                        elif isinstance(n, ast.AugAssign):
                            targets.append((n.target, None, None))
                        for t, value, annotation in targets:
                            if not is_attr_of(t, me):
                                continue
                            prop = cls.find_method(t.attr)
                            if is_property(prop) and cls.find_method(t.attr, "setter") is not None:
                                continue  # goes through the setter, which is walked as a method of its own
                            name = mangle(t.attr, c.name)
                            info = out.setdefault(name, AttrInfo(name))
                            info.assigned_in.append(f)
                            if annotation is not None:
                                info.hints.append((f.module, annotation))
                            elif isinstance(value, ast.Name) and ann.get(value.id) is not None:
                                info.hints.append((f.module, ann[value.id]))
                            elif isinstance(value, ast.Call) and isinstance(value.func, ast.Name):
                                r = resolve_in_func(self.ix, f, value.func.id)
                                if isinstance(r, ClassInfo):
                                    info.hints.append(r)
        self._inst[cls] = out
        return out

    def class_level(self, cls: ClassInfo, attr: str) -> bool:
        """attribute defined (or declared) at class level somewhere in the family"""
        for c in self.family(cls):
            if attr in c.attrs:
                return True
            for st in c.node.body:
                if isinstance(st, ast.AnnAssign) and is_name(st.target, attr):
                    return True
        return False

    # ------------------------------------------------------------ properties
    def storage_of(self, cls: ClassInfo, attr: str, _depth: int = 0) -> set[str]:
        """storage attributes behind ``self.<attr>`` (through simple property getters that
        return ``self.x`` or a view ``self.x[...]``)"""
        g = cls.find_method(attr, "getter")
        if g is None or not is_property(g) or _depth > 4:
            return {attr}
        me = first_param(g)
        out: set[str] = set()
        rets = [n for n in walk_own(g.node) if isinstance(n, ast.Return) and n.value is not None]
        for r in rets:
            v = r.value
            while isinstance(v, ast.Subscript):
                v = v.value
            if me is not None and is_attr_of(v, me):
                out |= self.storage_of(cls, mangle(v.attr, g.cls.name if g.cls else None), _depth + 1)
            else:
                return {attr}  # computed value: the property itself is the unit
        return out or {attr}

    # ------------------------------------------------------------ method chains
    def chain(self, cls: ClassInfo, meth: str) -> ChainFacts | None:
        f = cls.find_method(meth)
        if f is None:
            return None
        facts = ChainFacts()
        mro = cls.mro()
        todo = [f]
        while todo:
            f = todo.pop()
            if f in facts.definers:
                continue
            facts.definers.append(f)
            me = first_param(f)
            cname = f.cls.name if f.cls else None
            for n in walk_no_classes(f.node):
                if is_attr_of(n, me):
                    if n.attr == "__class__":
                        facts.uses_class = True
                    elif n.attr == "__dict__":
                        facts.uses_dict = True
                    else:
                        facts.attrs.add(mangle(n.attr, cname))
                if isinstance(n, ast.Call) and is_name(n.func, "type") and len(n.args) == 1 and is_name(n.args[0], me):
                    facts.uses_class = True
                if is_call_to(n, "vars") and n.args and is_name(n.args[0], me):
                    facts.uses_dict = True
                # identity / address of an attribute
                if isinstance(n, ast.Attribute) and n.attr in ADDRESS_ATTRS and is_attr_of(n.value, me):
                    facts.identity_of.add(mangle(n.value.attr, cname))
                if is_call_to(n, "id") and n.args and is_attr_of(n.args[0], me):
                    facts.identity_of.add(mangle(n.args[0].attr, cname))
                # super().<meth>(...)
                if isinstance(n, ast.Call) and isinstance(n.func, ast.Attribute) and n.func.attr == meth and is_call_to(n.func.value, "super"):
                    nxt = None
                    if f.cls in mro:
                        for c in mro[mro.index(f.cls) + 1 :]:
                            if meth in c.methods:
                                nxt = c.methods[meth][0]
                                break
                    if nxt is None:
                        # object.__eq__ / unknown external base
                        if meth != "__eq__":
                            facts.complete = False
                    else:
                        todo.append(nxt)
        return facts


# =====================================================================================
# 4. what an annotated type contributes to a key
# =====================================================================================
VALUE_NAMES = {
    # hashed by value through hash(obj)
    "bool", "int", "float", "complex", "str", "bytes", "None", "NoneType", "Number", "Real", "Integral",
    "DTypeLike", "dtype", "Path", "Literal", "Enum", "number", "generic", "integer", "floating", "complexfloating",
}  # fmt: skip
IDENTITY_NAMES = {"Callable", "type", "FunctionType", "ModuleType"}
SEQUENCE_NAMES = {"list", "tuple", "Sequence", "Iterable", "Collection", "MutableSequence", "List", "Tuple"}
SET_NAMES = {"set", "frozenset", "Set", "FrozenSet", "AbstractSet"}
MAPPING_NAMES = {"dict", "Mapping", "MutableMapping", "OrderedDict", "defaultdict", "Counter", "Dict"}
OPAQUE_NAMES = {"Any", "object"}
TRANSPARENT = {"Optional", "Union", "Annotated", "Final", "ClassVar"}
IGNORED_BASES = {"object", "Generic", "Protocol", "ABC"}


@dataclass
class Atom:
    """one alternative of an annotation and its contribution to the key"""

    kind: str  # value | identity | hook | fallback | custom-hash | elements | items | content | fields | opaque | external | error
    label: str
    cls: ClassInfo | None = None
    children: list["Atom"] = field(default_factory=list)

    def text(self) -> str:
        inner = f"[{' | '.join(c.text() for c in self.children)}]" if self.children else ""
        return f"{self.label}:{self.kind}{inner}"


class KeyAnalysis:
    def __init__(self, ix: Index, km: KeyModel, facts: ClassFacts):
        self.ix = ix
        self.km = km
        self.facts = facts
        self.kinds: dict[ClassInfo, str] = {}
        self.reached: dict[ClassInfo, list[str]] = {}  # class -> how it was reached
        self.opaque: list[str] = []  # unclassified contributions
        self._active: set[ClassInfo] = set()

    # ------------------------------------------------------------ classes
    def class_kind(self, cls: ClassInfo) -> str:
        if cls in self.kinds:
            return self.kinds[cls]
        km = self.km
        mro = cls.mro()
        kind = None
        ext = self.facts.external_bases(cls)
        if km.hook and any(km.hook in c.methods for c in mro):
            kind = "hook"
        elif ext & {"NamedTuple", "tuple", "list"}:
            kind = km.containers.get("tuple") and "elements" or "error"
        elif ext & MAPPING_NAMES:
            kind = "items" if any(km.containers.get(b) == "items" for b in ext & MAPPING_NAMES) else "error"
        elif ext & {"Enum", "IntEnum", "StrEnum", "Flag", "IntFlag", "str", "int", "float"}:
            kind = "value"
        elif "ndarray" in ext:
            kind = km.containers.get("ndarray", "error")
        else:
            for c in mro:
                dc = [d for d in c.node.decorator_list if dotted(d.func if isinstance(d, ast.Call) else d).split(".")[-1] == "dataclass"]
                if dc:
                    kw = {k.arg: k.value for k in dc[0].keywords} if isinstance(dc[0], ast.Call) else {}

                    def flag(name: str, default: bool) -> bool:
                        v = kw.get(name)
                        return bool(v.value) if isinstance(v, ast.Constant) else default

                    if flag("eq", True) and not (flag("frozen", False) or flag("unsafe_hash", False)) and "__hash__" not in c.methods:
                        kind = "fallback"
                    elif flag("eq", True):
                        kind = "custom-hash"
                    if kind:
                        break
                hash_attr = c.attrs.get("__hash__")
                if "__hash__" in c.methods or (hash_attr is not None and not (isinstance(hash_attr, ast.Constant) and hash_attr.value is None)):
                    kind = "custom-hash"
                    break
                if "__eq__" in c.methods or hash_attr is not None:
                    kind = "fallback"
                    break
            if kind is None:
                kind = "identity"
            if kind == "fallback" and not km.fallback:
                kind = "error"  # hash_mutable raises for unhashable objects: no silent sharing
        self.kinds[cls] = kind
        return kind

    def fallback_root(self, cls: ClassInfo) -> ClassInfo:
        """topmost ancestor that is keyed through the fallback as well"""
        root = cls
        for c in cls.mro():
            if self.class_kind(c) == "fallback":
                root = c
        return root

    # ------------------------------------------------------------ annotations
    def classify(self, module: ModuleInfo, node: ast.expr | None, via: str, _depth: int = 0) -> list[Atom]:
        if node is None:
            self.opaque.append(f"{via}: no annotation")
            return [Atom("opaque", "<unannotated>")]
        if _depth > 12:
            return [Atom("opaque", "<depth>")]
        if isinstance(node, ast.Constant):
            if node.value is None:
                return [Atom("value", "None")]
            if isinstance(node.value, str):
                try:
                    return self.classify(module, ast.parse(node.value, mode="eval").body, via, _depth + 1)
                except SyntaxError:
                    return [Atom("opaque", repr(node.value))]
            return [Atom("value", repr(node.value))]
        if isinstance(node, ast.BinOp) and isinstance(node.op, ast.BitOr):
            return self.classify(module, node.left, via, _depth + 1) + self.classify(module, node.right, via, _depth + 1)
        if isinstance(node, ast.Subscript):
            base = dotted(node.value).split(".")[-1]
            args = list(node.slice.elts) if isinstance(node.slice, ast.Tuple) else [node.slice]
            if base in TRANSPARENT:
                out: list[Atom] = []
                for a in args[:1] if base == "Annotated" else args:
                    out += self.classify(module, a, via, _depth + 1)
                return out
            if base == "Literal":
                return [Atom("value", ast.unparse(node))]
            if base == "type":
                return [Atom("identity", ast.unparse(node))]
            if base in SEQUENCE_NAMES | SET_NAMES:
                return [self._container(base, [a for a in args if not (isinstance(a, ast.Constant) and a.value is Ellipsis)], module, via, _depth)]
            if base in MAPPING_NAMES:
                return [self._container(base, args[1:], module, via, _depth)]
            # generic alias of something else (np.ndarray[...], Callable[...], BackendBase[T])
            return self.classify(module, node.value, via, _depth + 1)
        if isinstance(node, (ast.Name, ast.Attribute)):
            name = dotted(node)
            last = name.split(".")[-1]
            r = resolve_name(self.ix, module, name)
            if isinstance(r, ClassInfo):
                return self._class_atoms(r, via)
            if isinstance(r, tuple) and r[0] == "assign":
                _, m2, expr = r
                if is_call_to(expr, "TypeVar"):
                    kw = {k.arg: k.value for k in expr.keywords}
                    if "bound" in kw:
                        return self.classify(m2, kw["bound"], via, _depth + 1)
                    if len(expr.args) > 1:
                        out = []
                        for a in expr.args[1:]:
                            out += self.classify(m2, a, via, _depth + 1)
                        return out
                    self.opaque.append(f"{via}: unconstrained TypeVar {last}")
                    return [Atom("opaque", last)]
                if is_call_to(expr, "NewType") and len(expr.args) == 2:
                    return self.classify(m2, expr.args[1], via, _depth + 1)
                return self.classify(m2, expr, via, _depth + 1)
            if isinstance(r, FuncInfo):
                return [Atom("identity", last)]
            return [self._external(last, via)]
        self.opaque.append(f"{via}: annotation outside the grammar: {ast.unparse(node)}")
        return [Atom("opaque", ast.unparse(node))]

    def _container(self, base: str, args: list[ast.expr], module: ModuleInfo, via: str, depth: int) -> Atom:
        km = self.km
        # abstract names stand for the concrete builtin that hash_mutable tests for
        concrete = "tuple" if base in SEQUENCE_NAMES else ("set" if base in SET_NAMES else "dict")
        mode = km.containers.get(base) or km.containers.get(concrete)
        if mode is None:
            return Atom("error", base)
        children: list[Atom] = []
        for a in args:
            children += self.classify(module, a, f"{via}[{base}]", depth + 1)
        if not args:
            self.opaque.append(f"{via}: bare container `{base}` (element type unknown)")
            children = [Atom("opaque", "<elements>")]
        return Atom(mode, base, children=children)

    def _external(self, last: str, via: str) -> Atom:
        km = self.km
        if last in OPAQUE_NAMES:
            self.opaque.append(f"{via}: `{last}`")
            return Atom("opaque", last)
        if last in VALUE_NAMES:
            return Atom("value", last)
        if last in IDENTITY_NAMES:
            return Atom("identity", last)
        if last in km.containers:
            mode = km.containers[last]
            if mode in ("elements", "items"):
                self.opaque.append(f"{via}: bare container `{last}` (element type unknown)")
                return Atom(mode, last, children=[Atom("opaque", "<elements>")])
            return Atom(mode, last)
        if last in SEQUENCE_NAMES | SET_NAMES | MAPPING_NAMES:
            return self._container(last, [], None, via, 0)  # type: ignore[arg-type]
        self.opaque.append(f"{via}: external type `{last}` not classified")
        return Atom("external", last)

    def _class_atoms(self, cls: ClassInfo, via: str) -> list[Atom]:
        """the annotated class and every subclass (an argument may be any of them)"""
        atoms = []
        by_kind: dict[str, list[ClassInfo]] = {}
        for c in [cls] + [s for s in self.ix.subclasses(cls, strict=True)]:
            by_kind.setdefault(self.class_kind(c), []).append(c)
        for kind, members in by_kind.items():
            label = cls.name if members == [cls] else f"{cls.name}<{','.join(sorted(m.name for m in members))}>"
            atom = Atom(kind, label, cls=cls)
            for m in members:
                self.reached.setdefault(m, []).append(via)
            if kind in ("fallback", "elements") and not (set(members) & self._active):
                for m in members:
                    self._active.add(m)
                try:
                    atom.children = self._recurse(members, kind, via)
                finally:
                    for m in members:
                        self._active.discard(m)
            atoms.append(atom)
        return atoms

    def _recurse(self, members: list[ClassInfo], kind: str, via: str) -> list[Atom]:
        """attributes the key recurses into (fallback: instance dict; tuple classes: fields)"""
        out: list[Atom] = []
        done: set[str] = set()
        for m in members:
            if kind == "elements":
                for c in m.mro():
                    for st in c.node.body:
                        if isinstance(st, ast.AnnAssign) and isinstance(st.target, ast.Name) and st.target.id not in done:
                            done.add(st.target.id)
                            sub = self.classify(c.module, st.annotation, f"{via}.{st.target.id}")
                            out.append(Atom("attr", st.target.id, children=sub))
                continue
            for name, info in sorted(self.facts.inst_attrs(m).items()):
                if name in done:
                    continue
                done.add(name)
                if self.km.filter_prefix and name.startswith(self.km.filter_prefix):
                    out.append(Atom("filtered", name))
                    continue
                sub: list[Atom] = []
                for h in info.hints[:3]:
                    if isinstance(h, ClassInfo):
                        sub += self._class_atoms(h, f"{via}.{name}")
                    else:
                        hm, hexpr = h
                        sub += self.classify(hm, hexpr, f"{via}.{name}")
                # only typed attributes are shown in full; untyped ones are values built in place
                out.append(Atom("attr", name, children=_dedup(sub)))
        return out


def _dedup(atoms: list[Atom]) -> list[Atom]:
    seen, out = set(), []
    for a in atoms:
        t = a.text()
        if t not in seen:
            seen.add(t)
            out.append(a)
    return out


def atoms_text(atoms: list[Atom], limit: int = 700) -> str:
    s = " | ".join(a.text() for a in _dedup(atoms))
    return s if len(s) <= limit else s[: limit - 3] + "..."


def atom_kinds(atoms: list[Atom]) -> set[str]:
    out: set[str] = set()
    todo = list(atoms)
    while todo:
        a = todo.pop()
        out.add(a.kind)
        todo += a.children
    return out


# =====================================================================================
# 5. captured addresses: follow resolved calls from a cached method
# =====================================================================================
@dataclass(frozen=True)
class Taint:
    root: str  # parameter of the cached method the value derives from
    path: tuple[str, ...]
    owner: ClassInfo | None  # static type of the object holding `attr`
    attr: str | None  # last attribute taken (views keep it)
    typ: ClassInfo | None  # static type of the value itself

    def short(self) -> str:
        return ".".join((self.root, *self.path[-4:]))


@dataclass
class Capture:
    root: str
    path: tuple[str, ...]
    owner: ClassInfo | None
    attr: str | None
    how: str
    func: FuncInfo
    line: int
    chain: tuple[str, ...]

    @property
    def direct(self) -> bool:
        """attribute of the root object itself (possibly a view of it)"""
        return [p for p in self.path if p != "[]"] == [self.attr] if self.attr else False


PASS_THROUGH_CALLS = {"enumerate", "zip", "reversed", "list", "tuple", "iter", "sorted", "asarray", "ascontiguousarray", "atleast_1d"}
VIEW_METHODS = {"view", "reshape", "ravel", "squeeze", "transpose"}
BUILTIN_CALLS = set(dir(__import__("builtins")))
EXTERNAL_PREFIXES = ("np.", "nb.", "numba.", "jnp.", "jax.", "torch.", "sympy.", "inspect.", "functools.", "warnings.", "math.", "itertools.")


class CaptureAnalysis:
    MAX_DEPTH = 18

    def __init__(self, ix: Index, facts: ClassFacts):
        self.ix = ix
        self.facts = facts
        self.captures: list[Capture] = []
        self.unresolved: set[str] = set()
        self.visited: set[str] = set()
        self._memo: set[tuple] = set()
        self._ann_cache: dict[tuple[str, str], ClassInfo | None] = {}

    # ------------------------------------------------------------ types
    def ann_class(self, f: FuncInfo, node: ast.expr | None) -> ClassInfo | None:
        """first repository class named by an annotation"""
        if node is None:
            return None
        if isinstance(node, ast.Constant) and isinstance(node.value, str):
            try:
                node = ast.parse(node.value, mode="eval").body
            except SyntaxError:
                return None
        for n in ast.walk(node):
            if isinstance(n, (ast.Name, ast.Attribute)):
                r = resolve_in_func(self.ix, f, dotted(n))
                if isinstance(r, ClassInfo):
                    return r
                if isinstance(r, tuple) and r[0] == "assign" and is_call_to(r[2], "TypeVar"):
                    for k in r[2].keywords:
                        if k.arg == "bound":
                            m2 = r[1]
                            for x in ast.walk(k.value):
                                if isinstance(x, (ast.Name, ast.Attribute)):
                                    rr = resolve_name(self.ix, m2, dotted(x))
                                    if isinstance(rr, ClassInfo):
                                        return rr
                                if isinstance(x, ast.Constant) and isinstance(x.value, str):
                                    rr = resolve_name(self.ix, m2, x.value)
                                    if isinstance(rr, ClassInfo):
                                        return rr
        return None

    def attr_type(self, typ: ClassInfo | None, attr: str) -> ClassInfo | None:
        if typ is None:
            return None
        g = typ.find_method(attr, "getter")
        if g is not None and is_property(g):
            return self.ann_class(g, g.node.returns)
        info = self.facts.inst_attrs(typ).get(attr)
        if info:
            for h in info.hints:
                if isinstance(h, ClassInfo):
                    return h
                hm, hexpr = h
                for n in ast.walk(hexpr):
                    if isinstance(n, (ast.Name, ast.Attribute)):
                        r = resolve_name(self.ix, hm, dotted(n))
                        if isinstance(r, ClassInfo):
                            return r
        return None

    # ------------------------------------------------------------ expressions
    def taint_of(self, e: ast.AST | None, env: dict[str, Taint]) -> Taint | None:
        if e is None:
            return None
        if isinstance(e, ast.Name):
            return env.get(e.id)
        if isinstance(e, ast.Attribute):
            t = self.taint_of(e.value, env)
            if t is None:
                return None
            return Taint(t.root, (*t.path, e.attr), t.typ, e.attr, self.attr_type(t.typ, e.attr))
        if isinstance(e, ast.Subscript):
            t = self.taint_of(e.value, env)
            if t is None:
                return None
            if t.attr is None:  # element of a container of objects
                return Taint(t.root, (*t.path, "*"), None, None, None)
            return Taint(t.root, (*t.path, "[]"), t.owner, t.attr, None)  # view of the same memory
        if isinstance(e, ast.Starred):
            return self.taint_of(e.value, env)
        if isinstance(e, ast.IfExp):
            return self.taint_of(e.body, env) or self.taint_of(e.orelse, env)
        if isinstance(e, ast.BoolOp):
            for v in e.values:
                t = self.taint_of(v, env)
                if t:
                    return t
            return None
        if isinstance(e, (ast.Tuple, ast.List)):
            for v in e.elts:
                t = self.taint_of(v, env)
                if t:
                    return t
            return None
        if isinstance(e, ast.NamedExpr):
            return self.taint_of(e.value, env)
        if isinstance(e, ast.Call):
            fn = dotted(e.func).split(".")[-1]
            if fn in PASS_THROUGH_CALLS and not (isinstance(e.func, ast.Attribute) and self.taint_of(e.func.value, env)):
                for a in e.args:
                    t = self.taint_of(a, env)
                    if t:
                        return t
            if isinstance(e.func, ast.Attribute) and e.func.attr in VIEW_METHODS:
                t = self.taint_of(e.func.value, env)
                if t and t.attr:
                    return t
        return None

    @staticmethod
    def element(t: Taint) -> Taint:
        return Taint(t.root, (*t.path, "*"), None, None, None)

    def bind(self, target: ast.AST, t: Taint | None, env: dict[str, Taint]) -> bool:
        if t is None:
            return False
        changed = False
        if isinstance(target, ast.Name):
            if target.id not in env:
                env[target.id] = t
                changed = True
        elif isinstance(target, (ast.Tuple, ast.List)):
            for e in target.elts:
                changed |= self.bind(e, t, env)
        elif isinstance(target, ast.Starred):
            changed |= self.bind(target.value, t, env)
        return changed

    # ------------------------------------------------------------ call resolution
    def _methods(self, cls: ClassInfo, name: str, with_subclasses: bool = True) -> list[FuncInfo]:
        out = []
        f = cls.find_method(name)
        if f is not None:
            out.append(f)
        if with_subclasses:
            for s in self.ix.subclasses(cls, strict=True):
                for g in s.methods.get(name, []):
                    if g not in out and not any(d.endswith(".setter") for d in g.decorator_names):
                        out.append(g)
        return out

    def resolve_call(self, f: FuncInfo, call: ast.Call, env: dict[str, Taint], ctx: ClassInfo | None):
        """-> list of (callee, bound: bool, receiver taint, ctx class)"""
        fn = call.func
        me = first_param(f) if f.cls is not None else None
        # methods of an enclosing method see the same `self`
        top = f
        while top.parent is not None:
            top = top.parent
        if top.cls is not None:
            me = first_param(top)
        if isinstance(fn, ast.Name):
            # nested definitions of this function or of an enclosing one
            g: FuncInfo | None = f
            while g is not None:
                for n in g.nested():
                    if n.node.name == fn.id:
                        return [(n, False, None, ctx)]
                g = g.parent
            r = resolve_in_func(self.ix, f, fn.id)
            if isinstance(r, FuncInfo):
                return [(r, False, None, None)]
            if isinstance(r, ClassInfo):
                init = r.find_method("__init__")
                return [(init, True, None, r)] if init else []
            return []
        if isinstance(fn, ast.Attribute):
            v = fn.value
            if me is not None and is_name(v, me) and ctx is not None and me not in self._shadowed(f):
                return [(g, True, env.get(me), ctx) for g in self._methods(ctx, fn.attr)]
            if is_call_to(v, "super") and top.cls is not None and ctx is not None:
                mro = ctx.mro()
                if top.cls in mro:
                    for c in mro[mro.index(top.cls) + 1 :]:
                        if fn.attr in c.methods:
                            return [(c.methods[fn.attr][0], True, env.get(me) if me else None, ctx)]
                return []
            tv = self.taint_of(v, env)
            if tv is not None and tv.typ is not None:
                return [(g, True, tv, tv.typ) for g in self._methods(tv.typ, fn.attr)]
            if isinstance(v, (ast.Name, ast.Attribute)):
                r = resolve_in_func(self.ix, f, dotted(v))
                if isinstance(r, ModuleInfo):
                    g2 = resolve_name(self.ix, r, fn.attr)
                    if isinstance(g2, FuncInfo):
                        return [(g2, False, None, None)]
                    if isinstance(g2, ClassInfo):
                        init = g2.find_method("__init__")
                        return [(init, True, None, g2)] if init else []
                if isinstance(r, ClassInfo):
                    g3 = r.find_method(fn.attr)
                    if g3 is not None:
                        bound = any(d in ("classmethod",) for d in g3.decorator_names)
                        return [(g3, bound, None, r)]
            if isinstance(v, ast.Call):
                # receiver is the result of a resolvable call with an annotated return type
                inner = self.resolve_call(f, v, env, ctx)
                out = []
                for callee, _, _, _ in inner:
                    k = self.ann_class(callee, callee.node.returns)
                    if k is not None:
                        out += [(g, True, None, k) for g in self._methods(k, fn.attr)]
                if out:
                    return out
            return []
        return []

    @staticmethod
    def _shadowed(f: FuncInfo) -> set[str]:
        """parameter names of nested functions between f and its top-level method"""
        out: set[str] = set()
        g = f
        while g.parent is not None:
            a = g.node.args
            out |= {p.arg for p in a.posonlyargs + a.args + a.kwonlyargs}
            g = g.parent
        return out

    # ------------------------------------------------------------ the walk
    def run(self, f: FuncInfo, env: dict[str, Taint], ctx: ClassInfo | None, chain: tuple[str, ...] = (), depth: int = 0) -> None:
        key = (f.ref, ctx.name if ctx else None, tuple(sorted((k, t.root, t.attr, t.owner.name if t.owner else None, bool(t.path)) for k, t in env.items())))
        if key in self._memo or not env:
            return
        self._memo.add(key)
        if depth > self.MAX_DEPTH:
            self.unresolved.add(f"depth limit reached at {f.ref}")
            return
        self.visited.add(f.ref)
        chain = (*chain, display_ref(f))
        env = dict(env)
        # declared parameter types refine the static types
        a = f.node.args
        for p in a.posonlyargs + a.args + a.kwonlyargs:
            if p.arg in env and p.annotation is not None:
                k = self.ann_class(f, p.annotation)
                t = env[p.arg]
                if k is not None and (t.typ is None or not t.typ.is_subclass_of(k)):
                    env[p.arg] = Taint(t.root, t.path, t.owner, t.attr, k)
        # flow-insensitive propagation through local definitions (incl. closures)
        for _ in range(4):
            changed = False
            for n in walk_no_classes(f.node):
                if isinstance(n, ast.Assign):
                    t = self.taint_of(n.value, env)
                    for tg in n.targets:
                        changed |= self.bind(tg, t, env)
                elif isinstance(n, ast.AnnAssign) and n.value is not None:
                    changed |= self.bind(n.target, self.taint_of(n.value, env), env)
                elif isinstance(n, ast.NamedExpr):
                    changed |= self.bind(n.target, self.taint_of(n.value, env), env)
                elif isinstance(n, (ast.For, ast.comprehension)):
                    t = self.taint_of(n.iter, env)
                    if t is not None:
                        changed |= self.bind(n.target, self.element(t), env)
            if not changed:
                break
        # address reads
        for n in walk_no_classes(f.node):
            if isinstance(n, ast.Attribute) and n.attr in ADDRESS_ATTRS:
                t = self.taint_of(n.value, env)
                if t is not None:
                    self.captures.append(Capture(t.root, t.path, t.owner, t.attr, "." + n.attr, f, n.lineno, chain))
        # calls
        for n in walk_no_classes(f.node):
            if not isinstance(n, ast.Call):
                continue
            arg_taints = [(i, self.taint_of(x, env)) for i, x in enumerate(n.args)]
            kw_taints = [(k.arg, self.taint_of(k.value, env)) for k in n.keywords if k.arg]
            recv = self.taint_of(n.func.value, env) if isinstance(n.func, ast.Attribute) else None
            if not (recv or any(t for _, t in arg_taints) or any(t for _, t in kw_taints)):
                continue
            targets = self.resolve_call(f, n, env, ctx)
            if not targets:
                fname = dotted(n.func)
                if fname.split(".")[-1] not in PASS_THROUGH_CALLS and fname not in BUILTIN_CALLS and not fname.startswith(EXTERNAL_PREFIXES):
                    self.unresolved.add(f"{display_ref(f)}: {fname}(...)")
                continue
            for callee, bound, recv_t, cctx in targets:
                ca = callee.node.args
                params = [p.arg for p in ca.posonlyargs + ca.args]
                env2: dict[str, Taint] = {}
                offset = 0
                if bound and params:
                    offset = 1
                    rt = recv_t or recv
                    if rt is not None:
                        env2[params[0]] = Taint(rt.root, rt.path, rt.owner, rt.attr, cctx or rt.typ)
                for i, t in arg_taints:
                    if t is None:
                        continue
                    if i + offset < len(params):
                        env2[params[i + offset]] = t
                    elif ca.vararg is not None:
                        env2.setdefault(ca.vararg.arg, t)
                names = set(params) | {p.arg for p in ca.kwonlyargs}
                for k, t in kw_taints:
                    if t is not None and k in names:
                        env2[k] = t
                # closures called by name see the tainted variables of their definer
                if callee.parent is not None and (callee.parent is f or callee.parent is f.parent):
                    for k, t in env.items():
                        env2.setdefault(k, t)
                self.run(callee, env2, cctx if (bound or callee.parent is not None) else None, chain, depth + 1)


# =====================================================================================
# 6. re-binding statements and invalidation of the per-object result store
# =====================================================================================
def stmt_chains(f: FuncInfo) -> dict[int, list[tuple[list[ast.stmt], int]]]:
    """id(stmt) -> [(block, index), ...] from the function body down to the statement"""
    out: dict[int, list[tuple[list[ast.stmt], int]]] = {}

    def rec(block: list[ast.stmt], prefix: list[tuple[list[ast.stmt], int]]) -> None:
        for i, st in enumerate(block):
            here = [*prefix, (block, i)]
            out[id(st)] = here
            if isinstance(st, (ast.FunctionDef, ast.AsyncFunctionDef, ast.ClassDef)):
                continue
            for fld in ("body", "orelse", "finalbody"):
                sub = getattr(st, fld, None)
                if isinstance(sub, list) and sub and isinstance(sub[0], ast.stmt):
                    rec(sub, here)
            for h in getattr(st, "handlers", []) or []:
                rec(h.body, here)
            for c in getattr(st, "cases", []) or []:
                rec(c.body, here)

    rec(f.node.body, [])
    return out


def _exits(stmts: list[ast.stmt]) -> bool:
    for st in stmts:
        for n in [st, *walk_own(st)]:
            if isinstance(n, (ast.Return, ast.Raise, ast.Break, ast.Continue)):
                return True
    return False


def covers(f: FuncInfo, inval: ast.stmt, rebind: ast.stmt) -> bool:
    """is `inval` executed on every path through `f` that executes `rebind`?
    (statement-list approximation of dominance / post-dominance)"""
    ch = stmt_chains(f)
    ci, cr = ch.get(id(inval)), ch.get(id(rebind))
    if ci is None or cr is None:
        return False
    level = len(ci) - 1
    if level >= len(cr) or ci[level][0] is not cr[level][0]:
        return False  # nested in a branch the re-bind is not part of
    if any(ci[k][0] is not cr[k][0] or ci[k][1] != cr[k][1] for k in range(level)):
        return False
    i_idx, r_idx = ci[level][1], cr[level][1]
    if i_idx == r_idx:
        return inval is rebind
    if i_idx < r_idx:
        return True  # executed before the statement that contains the re-bind
    # after: control must fall through from the re-bind to the invalidation
    for k in range(len(cr) - 1, level, -1):
        block, idx = cr[k]
        if _exits(block[idx + 1 :]):
            return False
    block = cr[level][0]
    return not _exits(block[r_idx + 1 : i_idx])


def invalidations(f: FuncInfo, store: str, cache_names: set[str], cls: ClassInfo | None, _depth: int = 0) -> list[tuple[ast.stmt, str]]:
    """statements of `f` that drop the per-object result store (or the entries of the
    given cached methods) of ``self``"""
    me = first_param(f)
    if me is None:
        return []
    out: list[tuple[ast.stmt, str]] = []
    stmts = []

    def collect(block: list[ast.stmt]) -> None:
        for st in block:
            stmts.append(st)
            if isinstance(st, (ast.FunctionDef, ast.AsyncFunctionDef, ast.ClassDef)):
                continue
            for fld in ("body", "orelse", "finalbody"):
                sub = getattr(st, fld, None)
                if isinstance(sub, list) and sub and isinstance(sub[0], ast.stmt):
                    collect(sub)
            for h in getattr(st, "handlers", []) or []:
                collect(h.body)

    collect(f.node.body)

    def is_store(n: ast.AST) -> bool:
        return is_attr_of(n, me, store)

    def const_is(n: ast.AST, values: set[str]) -> bool:
        return isinstance(n, ast.Constant) and n.value in values

    def mentions_store(n: ast.AST) -> bool:
        return any(is_store(x) or const_is(x, {store}) for x in ast.walk(n))

    for st in stmts:
        if isinstance(st, (ast.If, ast.For, ast.While, ast.With, ast.Try)):
            continue  # compound statements are represented by their parts (guards: below)
        how = None
        if isinstance(st, ast.Assign) and any(is_store(t) for t in st.targets):
            how = f"{me}.{store} = ..."
        elif isinstance(st, ast.AnnAssign) and is_store(st.target) and st.value is not None:
            how = f"{me}.{store} = ..."
        elif isinstance(st, ast.Delete) and any(is_store(t) for t in st.targets):
            how = f"del {me}.{store}"
        elif isinstance(st, ast.Delete) and any(isinstance(t, ast.Subscript) and is_store(t.value) and const_is(t.slice, cache_names) for t in st.targets):
            how = f"del {me}.{store}[name]"
        elif isinstance(st, (ast.Expr, ast.Assign)) and isinstance(st.value, ast.Call):
            c = st.value
            fn = c.func
            if isinstance(fn, ast.Attribute):
                if is_store(fn.value) and fn.attr == "clear":
                    how = f"{me}.{store}.clear()"
                elif is_store(fn.value) and fn.attr == "pop" and c.args and (const_is(c.args[0], cache_names) or not isinstance(c.args[0], ast.Constant)):
                    how = f"{me}.{store}.pop(name)"
                elif fn.attr == "pop" and c.args and const_is(c.args[0], {store}) and (is_attr_of(fn.value, me, "__dict__") or (is_call_to(fn.value, "vars") and fn.value.args and is_name(fn.value.args[0], me))):
                    how = f"{me}.__dict__.pop({store!r})"
                elif fn.attr == "clear_cache_of_obj" and c.args and is_name(c.args[0], me) and isinstance(fn.value, ast.Attribute) and fn.value.attr in cache_names:
                    how = f"{fn.value.attr}.clear_cache_of_obj({me})"
                elif is_name(fn.value, me) and cls is not None and _depth < 2:
                    # helper method of the same object that invalidates unconditionally
                    g = cls.find_method(fn.attr)
                    if g is not None and g is not f and _invalidates_always(g, store, cache_names, cls, _depth + 1):
                        how = f"{me}.{fn.attr}() -> invalidates"
            elif is_name(fn, "delattr") and len(c.args) == 2 and is_name(c.args[0], me) and const_is(c.args[1], {store}):
                how = f"delattr({me}, {store!r})"
        if how:
            out.append((st, how))
    # guard idioms: an invalidation that is only skipped when there is nothing to drop
    #   if hasattr(self, "<store>"): <invalidate>        (no else branch)
    #   try: <invalidate> except AttributeError/KeyError: pass
    #   with contextlib.suppress(...): <invalidate>
    found = {id(s) for s, _ in out}
    for st in stmts:
        if isinstance(st, ast.If) and not st.orelse and mentions_store(st.test) and any(id(b) in found for b in st.body):
            out.append((st, "guarded: " + next(h for b, h in out if any(b is x for x in st.body))))
        elif isinstance(st, ast.Try) and any(id(b) in found for b in st.body) and not _exits([x for h in st.handlers for x in h.body]):
            out.append((st, "try: " + next(h for b, h in out if any(b is x for x in st.body))))
        elif isinstance(st, ast.With) and any(id(b) in found for b in st.body) and any(is_call_to(i.context_expr, "suppress") for i in st.items):
            out.append((st, "suppress: " + next(h for b, h in out if any(b is x for x in st.body))))
    return out


def _invalidates_always(g: FuncInfo, store: str, cache_names: set[str], cls: ClassInfo | None, depth: int) -> bool:
    """a top-level invalidation statement of `g` that no earlier exit can skip"""
    for st, _ in invalidations(g, store, cache_names, cls, depth):
        if st in g.node.body and not _exits(g.node.body[: g.node.body.index(st)]):
            return True
    return False


def rebinds(f: FuncInfo, storages: set[str]) -> list[tuple[ast.stmt, str, ast.expr | None]]:
    """plain assignments ``self.<storage> = value`` (not ``self.<storage>[...] = value``)"""
    me = first_param(f)
    if me is None or f.cls is None:
        return []
    out = []
    for n in walk_no_classes(f.node):
        pairs: list[tuple[ast.expr, ast.expr | None]] = []
        if isinstance(n, ast.Assign):
            for t in n.targets:
                for e in t.elts if isinstance(t, (ast.Tuple, ast.List)) else [t]:
                    pairs.append((e, n.value if e is t else None))
        elif isinstance(n, ast.AnnAssign) and n.value is not None:
            pairs.append((n.target, n.value))
        elif isinstance(n, ast.AugAssign):
            continue  # in-place for arrays: same memory
        for t, v in pairs:
            if is_attr_of(t, me) and mangle(t.attr, f.cls.name) in storages:
                out.append((n, mangle(t.attr, f.cls.name), v))
    return out


# =====================================================================================
# 7. state a cached method reads vs. state the class family writes later
# =====================================================================================
MUTATOR_METHODS = {
    "update", "setdefault", "pop", "popitem", "clear", "append", "extend", "insert", "remove", "sort", "reverse",
    "add", "discard", "fill", "resize", "put", "itemset", "partition", "__setitem__", "__delitem__", "__ior__",
}  # fmt: skip
CONSTRUCTOR_NAMES = {"__init__", "__new__"}
IMMUTABLE_ANNOTATION_NAMES = {"str", "int", "float", "bool", "complex", "bytes", "None", "Number", "Real", "tuple", "Literal"}


def top_function(f: FuncInfo) -> FuncInfo:
    while f.parent is not None:
        f = f.parent
    return f


class StateFacts:
    """which storage attributes of ``self`` a method reads (through self-calls and property
    getters) and where the class family writes them"""

    MAX_DEPTH = 8

    def __init__(self, ix: Index, facts: ClassFacts):
        self.ix = ix
        self.facts = facts
        self._callers: dict[str, set[FuncInfo]] | None = None
        self._subs: dict[ClassInfo, list[ClassInfo]] = {}

    def subclasses(self, cls: ClassInfo) -> list[ClassInfo]:
        if cls not in self._subs:
            self._subs[cls] = self.ix.subclasses(cls, strict=True)
        return self._subs[cls]

    # ------------------------------------------------------------ reads
    def _defs(self, cls: ClassInfo, name: str) -> list[FuncInfo]:
        """definition seen by ``cls`` plus overrides in its subclasses (non-setters)"""
        out = []
        f = cls.find_method(name)
        if f is not None:
            out.append(f)
        for s in self.subclasses(cls):
            for g in s.methods.get(name, []):
                if g not in out and not any(d.endswith((".setter", ".deleter")) for d in g.decorator_names):
                    out.append(g)
        return out

    def reads(self, cls: ClassInfo, f: FuncInfo) -> tuple[dict[str, list[str]], set[FuncInfo]]:
        """(storage attribute -> how it is reached (chain of methods/properties), the
        methods and getters that were followed)"""
        out: dict[str, list[str]] = {}
        seen: set[FuncInfo] = set()

        def visit(g: FuncInfo, chain: tuple[str, ...], depth: int) -> None:
            if g in seen or depth > self.MAX_DEPTH:
                return
            seen.add(g)
            me = first_param(top_function(g))
            if me is None or any(d in ("staticmethod", "classmethod") for d in top_function(g).decorator_names):
                return
            cname = g.cls.name if g.cls else None
            # values the method establishes itself (`self.x = ...` followed by reads of
            # `self.x`) are not a dependence on earlier state
            own = {
                t.attr
                for n in walk_no_classes(g.node)
                if isinstance(n, (ast.Assign, ast.AnnAssign))
                for t in (n.targets if isinstance(n, ast.Assign) else [n.target])
                if is_attr_of(t, me)
            }
            for n in walk_no_classes(g.node):
                if not (is_attr_of(n, me) and isinstance(n.ctx, ast.Load)):
                    continue
                a = n.attr
                if (a.startswith("__") and a.endswith("__")) or a in own:
                    continue
                defs = self._defs(cls, a)
                if defs:
                    for d in defs:
                        visit(d, (*chain, display_name(d)), depth + 1)
                    continue
                out.setdefault(mangle(a, cname), list(chain))

        visit(f, (display_name(f),), 0)
        return out, seen

    # ------------------------------------------------------------ constructor-only helpers
    def callers_of(self, name: str) -> set[FuncInfo]:
        """top-level functions of the package that contain a call ``<x>.<name>(...)`` or
        ``<name>(...)`` (syntactic, any receiver: an over-approximation of the callers)"""
        if self._callers is None:
            self._callers = {}
            for g in self.ix.all_functions():
                if g.parent is not None:
                    continue
                for n in walk_no_classes(g.node):
                    if isinstance(n, ast.Call):
                        nm = n.func.attr if isinstance(n.func, ast.Attribute) else (n.func.id if isinstance(n.func, ast.Name) else None)
                        if nm:
                            self._callers.setdefault(nm, set()).add(g)
                    elif isinstance(n, ast.Attribute) and isinstance(n.ctx, ast.Store):
                        # `x.name = value` runs the property setter `name`
                        self._callers.setdefault("=" + n.attr, set()).add(g)
        return self._callers.get(name, set())

    def constructor_only(self, f: FuncInfo, _seen: frozenset = frozenset()) -> bool:
        """constructors, and plain methods whose every (syntactic) call site in the package
        lies in a constructor or in another constructor-only helper"""
        if f.node.name in CONSTRUCTOR_NAMES:
            return True
        if f in _seen or is_property(f) or any(d.endswith((".setter", ".deleter")) for d in f.decorator_names):
            return False
        callers = self.callers_of(f.node.name)
        if not callers:
            return False
        return all(c is f or self.constructor_only(c, _seen | {f}) for c in callers)

    # ------------------------------------------------------------ writes
    def writes(self, cls: ClassInfo, f: FuncInfo) -> list[tuple[ast.stmt, str, str, ast.expr | None]]:
        """(statement, storage, kind, value) for statements of `f` that re-bind
        (``self.s = v``) or write in place (``self.s[...] = v``, ``self.s.update(...)``,
        ``del self.s[k]``) an attribute of ``self``; properties are resolved to storage"""
        me = first_param(f)
        if me is None or f.cls is None or any(d in ("staticmethod", "classmethod") for d in f.decorator_names):
            return []
        cname = f.cls.name
        out: list[tuple[ast.stmt, str, str, ast.expr | None]] = []

        def base_attr(e: ast.AST) -> str | None:
            while isinstance(e, ast.Subscript):
                e = e.value
            return e.attr if is_attr_of(e, me) else None

        def storages(a: str) -> set[str]:
            return self.facts.storage_of(cls, mangle(a, cname))

        for st in walk_no_classes(f.node):
            if isinstance(st, (ast.Assign, ast.AnnAssign, ast.AugAssign)):
                targets = st.targets if isinstance(st, ast.Assign) else [st.target]
                value = st.value
                flat: list[ast.expr] = []
                for t in targets:
                    flat += list(t.elts) if isinstance(t, (ast.Tuple, ast.List)) else [t]
                for t in flat:
                    if is_attr_of(t, me):
                        prop = cls.find_method(t.attr)
                        if is_property(prop) and cls.find_method(t.attr, "setter") is not None:
                            continue  # runs the setter, which is a method of the family itself
                        if isinstance(st, ast.AnnAssign) and st.value is None:
                            continue
                        out.append((st, mangle(t.attr, cname), "re-bind", value if len(flat) == 1 else None))
                    elif isinstance(t, ast.Subscript):
                        a = base_attr(t)
                        if a is not None:
                            for s in sorted(storages(a)):
                                out.append((st, s, "in-place", None))
            elif isinstance(st, ast.Delete):
                for t in st.targets:
                    if isinstance(t, ast.Subscript):
                        a = base_attr(t)
                        if a is not None:
                            for s in sorted(storages(a)):
                                out.append((st, s, "in-place", None))
            elif isinstance(st, ast.Expr) and isinstance(st.value, ast.Call) and isinstance(st.value.func, ast.Attribute):
                fn = st.value.func
                if fn.attr in MUTATOR_METHODS:
                    a = base_attr(fn.value)
                    if a is not None:
                        for s in sorted(storages(a)):
                            out.append((st, s, "in-place", None))
        return out

    def links_parameter(self, f: FuncInfo, value: ast.expr | None) -> str | None:
        """``self.s = p`` with `p` an unmodified parameter of `f` that may hold a mutable
        object: the attribute aliases an object owned by the caller"""
        if not isinstance(value, ast.Name):
            return None
        a = f.node.args
        params = {p.arg: p.annotation for p in a.posonlyargs + a.args + a.kwonlyargs}
        if value.id not in params:
            return None
        for n in walk_no_classes(f.node):
            if isinstance(n, (ast.Assign, ast.AugAssign, ast.AnnAssign)):
                tg = n.targets if isinstance(n, ast.Assign) else [n.target]
                if any(is_name(t, value.id) for t in tg):
                    return None  # re-bound locally (e.g. converted / copied first)
        ann = params[value.id]
        if ann is not None:
            names = {dotted(x).split(".")[-1] for x in ast.walk(ann) if isinstance(x, (ast.Name, ast.Attribute))}
            names |= {"None" for x in ast.walk(ann) if isinstance(x, ast.Constant) and x.value is None}
            if names and names <= IMMUTABLE_ANNOTATION_NAMES:
                return None
        return value.id


def dominates(f: FuncInfo, first: ast.stmt, second: ast.stmt) -> bool:
    """`first` is executed before `second` on every path through `f` that reaches
    `second` (statement-list approximation)"""
    ch = stmt_chains(f)
    c1, c2 = ch.get(id(first)), ch.get(id(second))
    if c1 is None or c2 is None:
        return False
    level = len(c1) - 1
    if level >= len(c2) or c1[level][0] is not c2[level][0]:
        return False
    if any(c1[k][0] is not c2[k][0] or c1[k][1] != c2[k][1] for k in range(level)):
        return False
    return c1[level][1] < c2[level][1]


def enclosing_stmt(f: FuncInfo, node: ast.AST) -> ast.stmt | None:
    """innermost statement of `f` (known to stmt_chains) that contains `node`"""
    ch = stmt_chains(f)
    best, best_depth = None, -1
    for st in walk_no_classes(f.node):
        if isinstance(st, ast.stmt) and id(st) in ch and len(ch[id(st)]) > best_depth:
            if any(x is node for x in ast.walk(st)):
                best, best_depth = st, len(ch[id(st)])
    return best


def is_fresh_container(e: ast.AST | None) -> bool:
    """expression that creates a new container object"""
    if e is None:
        return False
    if isinstance(e, (ast.Dict, ast.DictComp, ast.List, ast.ListComp, ast.Set, ast.SetComp)):
        return True
    if isinstance(e, ast.BinOp) and isinstance(e.op, ast.BitOr):
        return True  # `a | b` builds a new mapping
    if isinstance(e, ast.Call):
        name = dotted(e.func).split(".")[-1]
        return name in {"dict", "copy", "deepcopy", "fromkeys", "OrderedDict", "defaultdict", "list", "set", "ChainMap"}
    if isinstance(e, ast.IfExp):
        return is_fresh_container(e.body) and is_fresh_container(e.orelse)
    return False

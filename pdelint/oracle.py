"""E3 -- continuum differential operators, derived (not copied from the repository).

Every operator is computed in the *Cartesian embedding*: a field given by its
components in the local orthonormal basis of the coordinate system is converted to
Cartesian components, Cartesian partial derivatives are applied through the inverse
Jacobian of the coordinate map, and the result is rotated back.  The coordinate maps
are the textbook ones and are written here independently of ``pde/grids/coordinates``.

Component order follows the property: grid axes first, then the symmetric axes:
polar (r, phi), spherical (r, theta, phi), cylindrical (r, z, phi).
"""

from __future__ import annotations

import itertools
from dataclasses import dataclass
from functools import lru_cache

import sympy as sp


@dataclass(frozen=True)
class CoordSys:
    name: str
    comp_names: tuple  # component order used by grid operators
    grid_axes: tuple  # names of axes the field depends on
    coords: tuple  # all curvilinear coordinates, in comp order
    to_cart: tuple  # cartesian position as function of coords


def _sys(name: str, ncart: int = 0) -> CoordSys:
    r = sp.Symbol("r", positive=True)
    z = sp.Symbol("z", real=True)
    th = sp.Symbol("theta", positive=True)
    ph = sp.Symbol("phi", real=True)
    if name == "polar":
        return CoordSys(name, ("r", "phi"), ("r",), (r, ph), (r * sp.cos(ph), r * sp.sin(ph)))
    if name == "spherical":
        return CoordSys(
            name,
            ("r", "theta", "phi"),
            ("r",),
            (r, th, ph),
            (r * sp.sin(th) * sp.cos(ph), r * sp.sin(th) * sp.sin(ph), r * sp.cos(th)),
        )
    if name == "cylindrical":
        # component order (r, z, phi); right-handed triple is (r, phi, z) but only the
        # association component<->basis vector matters here
        return CoordSys(name, ("r", "z", "phi"), ("r", "z"), (r, z, ph), (r * sp.cos(ph), r * sp.sin(ph), z))
    if name == "cartesian":
        xs = tuple(sp.Symbol(f"x{k}", real=True) for k in range(ncart))
        return CoordSys(name, tuple(f"x{k}" for k in range(ncart)), tuple(f"x{k}" for k in range(ncart)), xs, xs)
    raise ValueError(name)


class Oracle:
    """continuum operators of one coordinate system on symmetric fields"""

    def __init__(self, name: str, ncart: int = 0):
        self.sys = _sys(name, ncart)
        s = self.sys
        self.dim = len(s.coords)
        self.q = s.coords
        self.axes = tuple(c for c in s.coords if str(c) in s.grid_axes)  # variables fields depend on
        X = sp.Matrix(s.to_cart)
        J = X.jacobian(sp.Matrix(self.q))  # dX_i / dq_a
        self.Jinv = sp.simplify(J.inv())  # dq_a / dX_i
        # orthonormal basis e_a = (dX/dq_a) / |dX/dq_a|
        cols = []
        for a in range(self.dim):
            col = J[:, a]
            nrm = sp.sqrt(sp.simplify(sum(c**2 for c in col)))
            cols.append(sp.simplify(col / nrm))
        self.E = sp.Matrix.hstack(*cols)  # E[i, a] = e_a . x_i
        # chart domain: theta in (0, pi), so sin(theta) > 0
        th = sp.Symbol("theta", positive=True)
        self.E = self.E.replace(sp.Abs(sp.sin(th)), sp.sin(th))
        self.Jinv = self.Jinv.replace(sp.Abs(sp.sin(th)), sp.sin(th))

    # -- fields ---------------------------------------------------------------
    def field(self, rank: int):
        """components as functions of the grid axes: dict comp-index-tuple -> Function(axes)"""
        comps = {}
        for c in itertools.product(range(self.dim), repeat=rank):
            comps[c] = sp.Function("u" + "".join(map(str, c)))(*self.axes)
        return comps

    def d(self, F, i: int):
        """Cartesian partial derivative d/dX_i of a scalar expression in curvilinear coords"""
        return sum(self.Jinv[a, i] * sp.diff(F, self.q[a]) for a in range(self.dim))

    def cart_vector(self, v):
        return [sum(self.E[i, a] * v[(a,)] for a in range(self.dim)) for i in range(self.dim)]

    def cart_tensor(self, T):
        return [
            [sum(self.E[i, a] * self.E[j, b] * T[(a, b)] for a in range(self.dim) for b in range(self.dim)) for j in range(self.dim)]
            for i in range(self.dim)
        ]

    def _simp(self, e):
        # The fields are invariant under rotations about the symmetry axis (components do
        # not depend on phi) and the operators commute with rotations, hence the result
        # components do not depend on phi either: evaluate at phi = 0 once all
        # derivatives have been taken.
        ph = sp.Symbol("phi", real=True)
        e = sp.sympify(e).subs(ph, 0)
        e = sp.trigsimp(sp.expand(e))
        e = sp.cancel(sp.together(e))
        if e.has(sp.sin, sp.cos, sp.tan):
            e = sp.simplify(e)
        return e

    # -- operators; each returns dict out-comp-tuple -> expression -------------
    def laplace(self):
        s = self.field(0)[()]
        return {(): self._simp(sum(self.d(self.d(s, i), i) for i in range(self.dim)))}

    def gradient(self):
        s = self.field(0)[()]
        g = [self.d(s, i) for i in range(self.dim)]
        return {(a,): self._simp(sum(self.E[i, a] * g[i] for i in range(self.dim))) for a in range(self.dim)}

    def gradient_squared(self):
        s = self.field(0)[()]
        return {(): self._simp(sum(self.d(s, i) ** 2 for i in range(self.dim)))}

    def divergence(self):
        V = self.cart_vector(self.field(1))
        return {(): self._simp(sum(self.d(V[i], i) for i in range(self.dim)))}

    def vector_gradient(self):
        V = self.cart_vector(self.field(1))
        out = {}
        for a in range(self.dim):
            for b in range(self.dim):
                out[(a, b)] = self._simp(
                    sum(self.E[i, a] * self.E[j, b] * self.d(V[i], j) for i in range(self.dim) for j in range(self.dim))
                )
        return out

    def vector_laplace(self):
        V = self.cart_vector(self.field(1))
        L = [sum(self.d(self.d(V[i], j), j) for j in range(self.dim)) for i in range(self.dim)]
        return {(a,): self._simp(sum(self.E[i, a] * L[i] for i in range(self.dim))) for a in range(self.dim)}

    def tensor_divergence(self):
        T = self.cart_tensor(self.field(2))
        D = [sum(self.d(T[i][j], j) for j in range(self.dim)) for i in range(self.dim)]
        return {(a,): self._simp(sum(self.E[i, a] * D[i] for i in range(self.dim))) for a in range(self.dim)}

    def tensor_double_divergence(self):
        T = self.cart_tensor(self.field(2))
        return {(): self._simp(sum(self.d(self.d(T[i][j], j), i) for i in range(self.dim) for j in range(self.dim)))}

    def derivative(self, axis: int, order: int = 1):
        s = self.field(0)[()]
        return {(): sp.diff(s, self.axes[axis], order)}

    RANK_IN = {
        "laplace": 0,
        "gradient": 0,
        "gradient_squared": 0,
        "divergence": 1,
        "vector_gradient": 1,
        "vector_laplace": 1,
        "tensor_divergence": 2,
        "tensor_double_divergence": 2,
    }
    RANK_OUT = {
        "laplace": 0,
        "gradient": 1,
        "gradient_squared": 0,
        "divergence": 0,
        "vector_gradient": 2,
        "vector_laplace": 1,
        "tensor_divergence": 1,
        "tensor_double_divergence": 0,
    }


@lru_cache(maxsize=None)
def get_oracle(name: str, ncart: int = 0) -> Oracle:
    return Oracle(name, ncart)


@lru_cache(maxsize=None)
def oracle_op(sysname: str, ncart: int, op: str):
    return getattr(get_oracle(sysname, ncart), op)()


# ----------------------------------------------------------------------------
# jets
# ----------------------------------------------------------------------------
def jet_symbol(comp: tuple, alpha: tuple) -> sp.Symbol:
    return sp.Symbol("J_" + "".join(map(str, comp)) + "_" + "".join(map(str, alpha)))


def to_jets(expr, orc: Oracle):
    """replace u_c(axes) and its derivatives by jet symbols"""
    expr = sp.sympify(expr)
    repl = {}
    for d in expr.atoms(sp.Derivative):
        f = d.expr
        if not isinstance(f, sp.core.function.AppliedUndef):
            continue
        comp = tuple(int(ch) for ch in f.func.__name__[1:])
        alpha = [0] * len(orc.axes)
        for v, n in d.variable_count:
            alpha[orc.axes.index(v)] += int(n)
        repl[d] = jet_symbol(comp, tuple(alpha))
    expr = expr.xreplace(repl)
    repl2 = {}
    for f in expr.atoms(sp.core.function.AppliedUndef):
        if f.func.__name__.startswith("u"):
            comp = tuple(int(ch) for ch in f.func.__name__[1:])
            repl2[f] = jet_symbol(comp, (0,) * len(orc.axes))
    return expr.xreplace(repl2)


def taylor_cell(comp: tuple, offsets: tuple, hs: tuple, order: int):
    """Taylor polynomial of u_comp at cell + offsets (in units of spacing hs)"""
    n = len(offsets)
    tot = 0
    for alpha in itertools.product(range(order + 1), repeat=n):
        if sum(alpha) > order:
            continue
        c = sp.Integer(1)
        for a, o, h in zip(alpha, offsets, hs):
            c *= (o * h) ** a / sp.factorial(a)
        if c != 0:
            tot += c * jet_symbol(comp, alpha)
    return tot

"""tensoralg -- index formulas of the package's tensor algebra, read off the source.

Every implementation of dot / outer products, transposition and the basis change of
vector components (field methods; numpy and numba back-end factories; coordinate classes)
is interpreted with :mod:`pdelint.npsem` on arrays of distinct symbols, for each
combination of operand ranks, ``out`` given or not, ``conjugate`` on or off, and for
``(dim, grid shape)`` in ``CONFIGS`` (component and grid axes have pairwise different
lengths, so that confusing two axes cannot go unnoticed).  The result is a list of
:class:`Outcome` objects holding the computed entries (or the exception the path ends
in) next to the defining formula.  Used by C19 (component order) and C03 (``out`` given
versus allocated, numpy versus numba route).
"""

from __future__ import annotations

import ast
import itertools
from dataclasses import dataclass, field
from typing import Any, Callable

import numpy as np
import sympy as sp

from .core import AnalysisError
from .index import FuncInfo, Index
from .npsem import NP, Closure, KindRef, NpSem, Opaque, Raised, Scope, Stub, Unsupported, arrays_equal, conj, has_uninit, sym_array, uninit_array

CONFIGS = [(2, (3,)), (3, (2,)), (3, (2, 4))]
CONFIGS_THOROUGH = CONFIGS + [(1, (4,)), (2, (3, 4)), (3, (2, 2, 4)), (2, (1,))]


def _configs():
    import os

    return CONFIGS_THOROUGH if os.environ.get("PDELINT_TIER") == "thorough" else CONFIGS
FIELD_KINDS = {
    "ScalarField": (0, ("ScalarField", "DataFieldBase", "FieldBase")),
    "VectorField": (1, ("VectorField", "DataFieldBase", "FieldBase")),
    "Tensor2Field": (2, ("Tensor2Field", "DataFieldBase", "FieldBase")),
}


@dataclass
class Outcome:
    site: str  # file::qualname
    role: str  # stable name of the formula, e.g. "out[i,j]=a[i]*b[j]"
    scenario: dict
    line: int
    value: Any = None  # object array | None
    raised: str | None = None
    expected: Any = None
    mismatches: list = field(default_factory=list)
    uninit: bool = False
    route: str = ""  # "field" | "numpy" | "numba" | "coords"
    group: str = ""  # scenarios of one group must agree with each other

    @property
    def ok(self) -> bool:
        return self.raised is None and not self.mismatches and not self.uninit


# ----------------------------------------------------------------------------- stand-ins
def grid_stub(dim: int, shape: tuple[int, ...]) -> Stub:
    return Stub(
        "grid",
        dim=dim,
        num_axes=len(shape),
        shape=tuple(shape),
        assert_grid_compatible=lambda *a, **k: None,
        compatible_with=lambda *a, **k: True,
        __kind__=("GridBase",),
    )


def field_stub(kind: str, grid: Stub, data: np.ndarray, name: str) -> Stub:
    rank, kinds = FIELD_KINDS[kind]
    st = Stub(name, grid=grid, label=None, __kind__=kinds, dtype=Opaque("dtype"), rank=rank)
    st._attrs["data"] = data
    st._attrs["__set_data"] = lambda v, d=data: d.__setitem__(Ellipsis, v)
    st._attrs["__class__"] = kind_ref(kind)
    st._attrs["assert_field_compatible"] = lambda *a, **k: None
    st._attrs["copy"] = lambda **k: field_stub(kind, grid, data.copy(), name + "_copy")
    return st


_fresh = itertools.count()


def kind_ref(kind: str) -> KindRef:
    rank, kinds = FIELD_KINDS[kind]

    def make(grid, data=None, *, label=None, dtype=None, with_ghost_cells=False):
        if data is not None and not isinstance(data, str):
            raise Unsupported(f"construction of {kind} from data is not modelled here")
        shape = (grid._attrs["dim"],) * rank + tuple(grid._attrs["shape"])
        return field_stub(kind, grid, uninit_array(f"{kind}{next(_fresh)}", shape), f"new {kind}")

    return KindRef(kind, kinds, make)


def module_scope(ix: Index, f: FuncInfo, extra: dict | None = None) -> Scope:
    """every module-level name of the function's module, opaque unless modelled"""
    m = f.module
    vars: dict[str, Any] = {}
    for n in list(m.imports) + list(m.functions) + list(m.classes) + list(m.assigns):
        if "." not in n:
            vars[n] = Opaque(n)
    # names imported under `if TYPE_CHECKING:` or in try blocks are in m.imports already
    vars["np"] = NP
    for k in FIELD_KINDS:
        vars[k] = kind_ref(k)
    vars.update(extra or {})
    return Scope(vars)


def _expected(role: str, a, b, dim: int, cj: bool):
    """defining formulas (entries are arrays over the grid axes)"""
    B = conj(b) if cj and b is not None else b
    if role == "out=sum_i a[i]*b[i]":
        return sum((a[i] * B[i] for i in range(dim)), 0 * a[0])
    if role == "out[j]=sum_i a[i]*b[i,j]":
        return np.array([sum((a[i] * B[i, j] for i in range(dim)), 0 * a[0]) for j in range(dim)], dtype=object)
    if role == "out[i]=sum_j a[i,j]*b[j]":
        return np.array([sum((a[i, j] * B[j] for j in range(dim)), 0 * B[0]) for i in range(dim)], dtype=object)
    if role == "out[i,k]=sum_j a[i,j]*b[j,k]":
        return np.array([[sum((a[i, j] * B[j, k] for j in range(dim)), 0 * a[0, 0]) for k in range(dim)] for i in range(dim)], dtype=object)
    if role == "out[i,j]=a[i]*b[j]":
        return np.array([[a[i] * b[j] for j in range(dim)] for i in range(dim)], dtype=object)
    if role == "out[i,j]=a[j,i]":
        return np.array([[a[j, i] for j in range(dim)] for i in range(dim)], dtype=object)
    if role == "out[i]=sum_j v[j]*R[j,i]":
        return np.array([sum((a[j] * b[j, i] for j in range(dim)), 0 * a[0]) for i in range(dim)], dtype=object)
    raise KeyError(role)


DOT_ROLE = {
    (1, 1): "out=sum_i a[i]*b[i]",
    (1, 2): "out[j]=sum_i a[i]*b[i,j]",
    (2, 1): "out[i]=sum_j a[i,j]*b[j]",
    (2, 2): "out[i,k]=sum_j a[i,j]*b[j,k]",
}
RANK_KIND = {0: "ScalarField", 1: "VectorField", 2: "Tensor2Field"}


def _finish(o: Outcome, result, a, b, dim, cj):
    if isinstance(result, Stub):
        result = result._attrs.get("data")
    if isinstance(result, Opaque) or result is None:
        raise Unsupported(f"{o.site}: result of scenario {o.scenario} is not an array ({result!r})")
    o.value = np.asarray(result, dtype=object)
    o.expected = np.asarray(_expected(o.role, a, b, dim, cj), dtype=object)
    o.uninit = has_uninit(o.value)
    o.mismatches = arrays_equal(o.value, o.expected)[:4]
    return o


def _run(o: Outcome, thunk: Callable[[], Any], a, b, dim, cj, out_arr=None) -> Outcome:
    try:
        res = thunk()
    except Raised as e:
        o.raised = e.what
        return o
    _finish(o, res, a, b, dim, cj)
    if out_arr is not None and not o.mismatches and not o.uninit:
        # the array handed in as `out` must hold the result
        if has_uninit(out_arr) or arrays_equal(out_arr, o.expected):
            o.mismatches = [("out-not-filled", "the array passed as `out`", "is not written although a result is returned")]
    return o


# ----------------------------------------------------------------------------- field methods
def _impl(ix: Index, rel: str, qualname: str) -> FuncInfo:
    """the implementation among `@overload` stubs"""
    fs = [f for f in ix.funcs(rel, qualname) if "overload" not in f.decorator_names]
    if len(fs) != 1:
        raise AnalysisError(f"{rel}::{qualname}: expected exactly one implementation, found {len(fs)}")
    return fs[0]


def field_method_outcomes(ix: Index) -> list[Outcome]:
    out: list[Outcome] = []
    vdot = _impl(ix, "pde/fields/vectorial.py", "VectorField.dot")
    vouter = _impl(ix, "pde/fields/vectorial.py", "VectorField.outer_product")
    tdot = _impl(ix, "pde/fields/tensorial.py", "Tensor2Field.dot")
    tconv = _impl(ix, "pde/fields/tensorial.py", "Tensor2Field.convert")
    for dim, shape in _configs():
        g = grid_stub(dim, shape)

        def arr(name, rank):
            return sym_array(name, (dim,) * rank + shape)

        # dot products
        for f, ra in ((vdot, 1), (tdot, 2)):
            for rb in (1, 2):
                rout = ra + rb - 2
                for cj in (True, False):
                    for given in (False, True):
                        a, b = arr("a", ra), arr("b", rb)
                        self_ = field_stub(RANK_KIND[ra], g, a.copy(), "self")
                        other = field_stub(RANK_KIND[rb], g, b.copy(), "other")
                        outf = field_stub(RANK_KIND[rout], g, uninit_array("out", (dim,) * rout + shape), "out") if given else None
                        sem = NpSem(where=f.ref)
                        sc = module_scope(ix, f, {"get_common_dtype": lambda *x: Opaque("dtype")})
                        o = Outcome(f.ref, DOT_ROLE[(ra, rb)], {"dim": dim, "grid shape": shape, "other": RANK_KIND[rb], "out given": given, "conjugate": cj}, f.node.lineno, route="field", group=f"dot{ra}{rb}/{dim}/{shape}/{cj}")
                        out.append(_run(o, lambda: sem.run_function(f.node, {}, (self_, other, outf), {"conjugate": cj, "label": None}, outer=sc), a, b, dim, cj, outf._attrs["data"] if given else None))
        # outer product
        for given in (False, True):
            a, b = arr("a", 1), arr("b", 1)
            self_ = field_stub("VectorField", g, a.copy(), "self")
            other = field_stub("VectorField", g, b.copy(), "other")
            outf = field_stub("Tensor2Field", g, uninit_array("out", (dim, dim) + shape), "out") if given else None
            sem = NpSem(where=vouter.ref)
            sc = module_scope(ix, vouter)
            o = Outcome(vouter.ref, "out[i,j]=a[i]*b[j]", {"dim": dim, "grid shape": shape, "out given": given}, vouter.node.lineno, route="field", group=f"outer/{dim}/{shape}")
            out.append(_run(o, lambda: sem.run_function(vouter.node, {}, (self_, other, outf), {"label": None}, outer=sc), a, b, dim, False, outf._attrs["data"] if given else None))
        # transposition
        for inplace in (False, True):
            a = arr("a", 2)
            self_ = field_stub("Tensor2Field", g, a.copy(), "self")
            sem = NpSem(where=tconv.ref)
            sc = module_scope(ix, tconv)
            o = Outcome(tconv.ref, "out[i,j]=a[j,i]", {"dim": dim, "grid shape": shape, "form": "transposed", "inplace": inplace}, tconv.node.lineno, route="field", group=f"transpose/{dim}/{shape}")
            out.append(_run(o, lambda: sem.run_function(tconv.node, {}, (self_, "transposed"), {"inplace": inplace, "label": None}, outer=sc), a, None, dim, False, self_._attrs["data"] if inplace else None))
    # transpose() must route to convert("transposed")
    return out


# ----------------------------------------------------------------------------- back-end factories
def _nb_stub() -> Stub:
    types = Stub("nb.types", Optional=KindRef("Optional"), Array=KindRef("Array"), NoneType=KindRef("NoneType"), Omitted=KindRef("Omitted"), Type=KindRef("Type"))
    return Stub("nb", types=types, errors=Opaque("nb.errors"), NumbaTypeError=Opaque("NumbaTypeError"))


def _arr_type(ndim: int) -> Stub:
    return Stub(f"array({ndim}d)", ndim=ndim, __kind__=("Array", "Type"))


def _find_nested(f: FuncInfo, name: str) -> list[ast.FunctionDef]:
    return [n for n in ast.walk(f.node) if isinstance(n, ast.FunctionDef) and n.name == name]


class _Factory(NpSem):
    """interprets a factory body; decorated nested functions are plain closures (the
    decorators ``register_jitable``, ``nb_overload`` and ``compile_function`` do not change
    what the function computes)"""


def numpy_backend_outcomes(ix: Index) -> list[Outcome]:
    out: list[Outcome] = []
    fdot = ix.func("pde/backends/numpy/backend.py", "NumpyBackend.make_inner_prod_operator")
    fouter = ix.func("pde/backends/numpy/backend.py", "NumpyBackend.make_outer_prod_operator")
    for dim, shape in _configs():
        g = grid_stub(dim, shape)
        fld = field_stub("VectorField", g, sym_array("f", (dim,) + shape), "field")
        for cj in (True, False):
            sem = NpSem(where=fdot.ref)
            dot = sem.run_function(fdot.node, {}, (Opaque("backend"), fld), {"conjugate": cj}, outer=module_scope(ix, fdot))
            if not isinstance(dot, Closure):
                raise AnalysisError(f"{fdot.ref}: factory does not return a closure")
            for ra, rb in DOT_ROLE:
                rout = ra + rb - 2
                for given in (False, True):
                    a, b = sym_array("a", (dim,) * ra + shape), sym_array("b", (dim,) * rb + shape)
                    args = (a.copy(), b.copy()) + ((uninit_array("out", (dim,) * rout + shape),) if given else ())
                    o = Outcome(fdot.ref + ".dot", DOT_ROLE[(ra, rb)], {"dim": dim, "grid shape": shape, "ranks": (ra, rb), "out given": given, "conjugate": cj}, dot.node.lineno, route="numpy", group=f"dot{ra}{rb}/{dim}/{shape}/{cj}")
                    out.append(_run(o, lambda: dot(*args), a, b, dim, cj, args[2] if given else None))
        sem = NpSem(where=fouter.ref)
        outer = sem.run_function(fouter.node, {}, (Opaque("backend"), fld), {}, outer=module_scope(ix, fouter))
        for given in (False, True):
            a, b = sym_array("a", (dim,) + shape), sym_array("b", (dim,) + shape)
            args = (a.copy(), b.copy()) + ((uninit_array("out", (dim, dim) + shape),) if given else ())
            o = Outcome(fouter.ref + ".outer", "out[i,j]=a[i]*b[j]", {"dim": dim, "grid shape": shape, "out given": given}, outer.node.lineno, route="numpy", group=f"outer/{dim}/{shape}")
            out.append(_run(o, lambda: outer(*args), a, b, dim, False, args[2] if given else None))
    return out


def numba_backend_outcomes(ix: Index) -> list[Outcome]:
    out: list[Outcome] = []
    rel = "pde/backends/numba/backend.py"
    fdot = ix.func(rel, "NumbaBackend.make_inner_prod_operator")
    fouter = ix.func(rel, "NumbaBackend.make_outer_prod_operator")

    def factory_scope(f: FuncInfo, fld, extra_kw):
        """run the factory body; returns the scope holding its local closures"""
        sem = NpSem(where=f.ref)
        sc = module_scope(
            ix,
            f,
            {
                "nb": _nb_stub(),
                "super": lambda: Stub("super()", make_inner_prod_operator=lambda *a, **k: Opaque("dot"), make_outer_prod_operator=lambda *a, **k: Opaque("outer")),
                "register_jitable": Opaque("register_jitable"),
                "nb_overload": Opaque("nb_overload"),
            },
        )
        clo = Closure(f.node, sc, sem)
        # interpret the body in a scope we keep
        scope = Scope(parent=sc)
        backend = Stub("backend", compile_function=Opaque("compile_function"))
        params = [p.arg for p in f.node.args.args]
        for p, v in zip(params, (backend, fld)):
            scope.set(p, v)
        for p, d in zip(f.node.args.kwonlyargs, f.node.args.kw_defaults):
            scope.set(p.arg, extra_kw.get(p.arg, sem.eval(d, sc) if d is not None else None))
        from .npsem import _Return

        try:
            sem.exec_block(f.node.body, scope)
        except _Return:
            pass
        return sem, scope

    for dim, shape in _configs():
        g = grid_stub(dim, shape)
        fld = field_stub("VectorField", g, sym_array("f", (dim,) + shape), "field")
        nax = len(shape)
        for cj in (True, False):
            sem, scope = factory_scope(fdot, fld, {"conjugate": cj})
            try:
                dot_ol = scope.get("dot_ol")
            except KeyError:
                raise AnalysisError(f"{fdot.ref}: overload `dot_ol` not found") from None
            for ra, rb in DOT_ROLE:
                rout = ra + rb - 2
                for given in (False, True):
                    a, b = sym_array("a", (dim,) * ra + shape), sym_array("b", (dim,) * rb + shape)
                    o = Outcome(fdot.ref + ".dot_ol", DOT_ROLE[(ra, rb)], {"dim": dim, "grid shape": shape, "ranks": (ra, rb), "out given": given, "conjugate": cj}, dot_ol.node.lineno, route="numba", group=f"dot{ra}{rb}/{dim}/{shape}/{cj}")

                    oarr = uninit_array("out", (dim,) * rout + shape) if given else None

                    def thunk():
                        out_t = _arr_type(rout + nax) if given else Stub("none", __kind__=("NoneType",))
                        impl = dot_ol(_arr_type(ra + nax), _arr_type(rb + nax), out_t)
                        if not isinstance(impl, Closure):
                            raise AnalysisError(f"{fdot.ref}: overload does not return an implementation")
                        args = (a.copy(), b.copy()) + ((oarr,) if given else ())
                        return impl(*args)

                    out.append(_run(o, thunk, a, b, dim, cj, oarr))
        sem, scope = factory_scope(fouter, fld, {})
        try:
            outer_ol = scope.get("outer_ol")
        except KeyError:
            raise AnalysisError(f"{fouter.ref}: overload `outer_ol` not found") from None
        for given in (False, True):
            a, b = sym_array("a", (dim,) + shape), sym_array("b", (dim,) + shape)
            o = Outcome(fouter.ref + ".outer_ol", "out[i,j]=a[i]*b[j]", {"dim": dim, "grid shape": shape, "out given": given}, outer_ol.node.lineno, route="numba", group=f"outer/{dim}/{shape}")

            oarr = uninit_array("out", (dim, dim) + shape) if given else None

            def thunk2():
                out_t = _arr_type(2 + nax) if given else Stub("none", __kind__=("NoneType",))
                impl = outer_ol(_arr_type(1 + nax), _arr_type(1 + nax), out_t)
                args = (a.copy(), b.copy()) + ((oarr,) if given else ())
                return impl(*args)

            out.append(_run(o, thunk2, a, b, dim, False, oarr))
    return out


# ----------------------------------------------------------------------------- basis change
def basis_change_outcomes(ix: Index) -> list[Outcome]:
    """einsum of `components` with the rotation matrix whose rows are the basis vectors"""
    out: list[Outcome] = []
    sites = [
        ix.func("pde/grids/coordinates/base.py", "CoordinatesBase.vec_to_cart"),
        ix.func("pde/grids/base.py", "GridBase._vector_to_cartesian"),
    ]
    for f in sites:
        calls = [n for n in ast.walk(f.node) if isinstance(n, ast.Call) and isinstance(n.func, ast.Attribute) and n.func.attr == "einsum"]
        rets = [n for n in ast.walk(f.node) if isinstance(n, ast.Return) and n.value is not None]
        if len(calls) != 1 or not any(r.value is calls[0] for r in rets):
            raise AnalysisError(f"{f.ref}: expected the result to be one einsum contraction of components and rotation matrix")
        call = calls[0]
        if len(call.args) != 3 or not all(isinstance(x, ast.Name) for x in call.args[1:]):
            raise AnalysisError(f"{f.ref}: einsum operands are not plain names")
        # the second matrix operand must be produced by basis_rotation
        rot = call.args[2].id
        src = [n for n in ast.walk(f.node) if isinstance(n, ast.Assign) and any(isinstance(t, ast.Name) and t.id == rot for t in n.targets)]
        if len(src) != 1 or not (isinstance(src[0].value, ast.Call) and isinstance(src[0].value.func, ast.Attribute) and src[0].value.func.attr == "basis_rotation"):
            raise AnalysisError(f"{f.ref}: `{rot}` is not the result of basis_rotation")
        for dim, shape in _configs():
            v, R = sym_array("v", (dim,) + shape), sym_array("R", (dim, dim) + shape)
            sem = NpSem(where=f.ref)
            sc = Scope({"np": NP, call.args[1].id: v.copy(), rot: R.copy()})
            o = Outcome(f.ref, "out[i]=sum_j v[j]*R[j,i]", {"dim": dim, "grid shape": shape}, call.lineno, route="coords", group=f"basis/{dim}/{shape}")
            out.append(_run(o, lambda: sem.eval(call, sc), v, R, dim, False))
    return out


def array_api_backend_outcomes(ix: Index) -> list[Outcome]:
    """jax / torch back-ends (thorough tier): einsum-based closures with numpy semantics, `out` refused by design"""
    out: list[Outcome] = []
    for route, rel, cls, modname in (("jax", "pde/backends/jax/backend.py", "JaxBackend", "jnp"), ("torch", "pde/backends/torch/backend.py", "TorchBackend", "torch")):
        fdot = ix.func(rel, f"{cls}.make_inner_prod_operator")
        fouter = ix.func(rel, f"{cls}.make_outer_prod_operator")
        for dim, shape in _configs():
            g = grid_stub(dim, shape)
            fld = field_stub("VectorField", g, sym_array("f", (dim,) + shape), "field")
            for cj in (True, False):
                sem = NpSem(where=fdot.ref)
                dot = sem.run_function(fdot.node, {}, (Opaque("backend"), fld), {"conjugate": cj}, outer=module_scope(ix, fdot, {modname: NP}))
                if not isinstance(dot, Closure):
                    raise AnalysisError(f"{fdot.ref}: factory does not return a closure")
                for ra, rb in DOT_ROLE:
                    a, b = sym_array("a", (dim,) * ra + shape), sym_array("b", (dim,) * rb + shape)
                    o = Outcome(fdot.ref + ".dot", DOT_ROLE[(ra, rb)], {"dim": dim, "grid shape": shape, "ranks": (ra, rb), "out given": False, "conjugate": cj}, dot.node.lineno, route=route, group=f"dot{ra}{rb}/{dim}/{shape}/{cj}")
                    out.append(_run(o, lambda: dot(a.copy(), b.copy()), a, b, dim, cj))
            sem = NpSem(where=fouter.ref)
            outer = sem.run_function(fouter.node, {}, (Opaque("backend"), fld), {}, outer=module_scope(ix, fouter, {modname: NP}))
            a, b = sym_array("a", (dim,) + shape), sym_array("b", (dim,) + shape)
            o = Outcome(fouter.ref + ".outer", "out[i,j]=a[i]*b[j]", {"dim": dim, "grid shape": shape, "out given": False}, outer.node.lineno, route=route, group=f"outer/{dim}/{shape}")
            out.append(_run(o, lambda: outer(a.copy(), b.copy()), a, b, dim, False))
    return out


def all_outcomes(ix: Index) -> list[Outcome]:
    import os

    res = field_method_outcomes(ix) + numpy_backend_outcomes(ix) + numba_backend_outcomes(ix) + basis_change_outcomes(ix)
    if os.environ.get("PDELINT_TIER") == "thorough":
        res += array_api_backend_outcomes(ix)
    return res

"""E4 -- statement-level control-flow graph of one ``ast.FunctionDef`` (stdlib only).

Nodes
-----
One node per *simple* statement, one *head* node per compound statement:

=========  ================================================================
kind       meaning (``node.ast``)
=========  ================================================================
entry      function entry (the FunctionDef); parameters are defined here
exit       the distinguished normal exit (``return`` and falling off the end)
raise-exit the distinguished exceptional exit (uncaught ``raise`` / propagated)
stmt       simple statement (Assign, AugAssign, Expr, Assert, Import, nested def ...)
return / raise / break / continue / pass
if         test of an ``if`` (edges ``true`` / ``false``)
while      test of a ``while`` (``true`` / ``false``; a constant-true test has no
           ``false`` edge)
for        ``for`` head: evaluates the iterator, binds the target (``true`` = next
           item, ``false`` = exhausted)
with       evaluates the context managers, binds ``as`` names
try        marker in front of a ``try`` body
except     one handler clause (``node.ast`` is the ExceptHandler; binds ``as`` name)
finally    marker in front of one *copy* of a ``finally`` body
=========  ================================================================

Edges carry a label: ``next true false back continue break return fall exc raise``.
``finally`` bodies are inlined once per way of entering them (normal completion,
exception, return, break, continue), as CPython does, so no infeasible
"enter normally / leave by re-raise" paths exist.  Several nodes can therefore share
one ``ast`` statement (``cfg.nodes_of(stmt)``).

Exceptions
----------
Implicit exceptions are modelled only where the code base relies on them: a node
*inside a ``try`` body* whose own expressions contain one of ``raisers`` (default:
``ast.Call``; C09 adds ``ast.Subscript`` for the ``IndexError`` idiom) has an ``exc``
edge to every handler of the enclosing ``try`` statements (innermost first, stopping
at a bare ``except:`` / ``except BaseException``) and finally to the raise-exit.  An
explicit ``raise`` is routed the same way from anywhere.  Statements outside any
``try`` have no implicit exception edge.  This over-approximates the exceptional
paths (handler types are not matched), which is the sound direction for all the
"on every path" queries below.

Queries (all on node objects)
-----------------------------
``dominators() / dominates(a, b)``, ``post_dominators(exits) / post_dominates(b, a)``
(over the non-raising exit unless other exits are given), ``reachable(srcs, avoid)``,
``no_path(A, B, avoid)``, ``must_pass(srcs, dsts, pred)``, ``path_counts(start, pred,
stop_edges | stop_nodes)`` / ``exactly_once_before_back_edge(start, loop, pred)``,
``simple_paths(src, dst, limit)``, ``back_edges(loop)``, ``loop_nodes(loop)``,
``reaching()`` (reaching definitions of local names and ``self.attr`` chains).

Debug dump: ``python -m pdelint.cfg <file> <qualname>``.
"""

from __future__ import annotations

import ast
import sys
from collections.abc import Callable, Iterable, Iterator
from dataclasses import dataclass, field

from .core import AnalysisError


class CFGError(AnalysisError):
    """syntax outside the grammar the CFG builder understands (-> exit 2)"""


FuncDefs = (ast.FunctionDef, ast.AsyncFunctionDef, ast.Lambda)


@dataclass(eq=False)
class Node:
    id: int
    kind: str
    ast: ast.AST | None = None
    succ: list[tuple["Node", str]] = field(default_factory=list)
    pred: list[tuple["Node", str]] = field(default_factory=list)

    # ------------------------------------------------------------ description
    @property
    def lineno(self) -> int | None:
        return getattr(self.ast, "lineno", None)

    @property
    def text(self) -> str:
        a = self.ast
        if self.kind in ("entry", "exit", "raise-exit", "try", "finally"):
            return self.kind
        if self.kind == "if":
            return "if " + ast.unparse(a.test)
        if self.kind == "while":
            return "while " + ast.unparse(a.test)
        if self.kind == "for":
            return f"for {ast.unparse(a.target)} in {ast.unparse(a.iter)}"
        if self.kind == "with":
            return "with " + ", ".join(ast.unparse(i) for i in a.items)
        if self.kind == "except":
            t = ast.unparse(a.type) if a.type is not None else ""
            return f"except {t}" + (f" as {a.name}" if a.name else "")
        if isinstance(a, (ast.FunctionDef, ast.AsyncFunctionDef, ast.ClassDef)):
            return f"def {a.name}(...)" if not isinstance(a, ast.ClassDef) else f"class {a.name}"
        s = ast.unparse(a)
        return s if len(s) < 100 else s[:97] + "..."

    def __repr__(self) -> str:
        return f"<{self.id}:{self.kind}@{self.lineno} {self.text[:50]}>"

    # ------------------------------------------------------------ expressions
    def exprs(self) -> list[ast.AST]:
        """the syntax evaluated *at* this node (never the nested bodies)"""
        a = self.ast
        k = self.kind
        if a is None or k in ("entry", "exit", "raise-exit", "try", "finally"):
            return []
        if k in ("if", "while"):
            return [a.test]
        if k == "for":
            return [a.iter, a.target]
        if k == "with":
            out: list[ast.AST] = []
            for it in a.items:
                out.append(it.context_expr)
                if it.optional_vars is not None:
                    out.append(it.optional_vars)
            return out
        if k == "except":
            return [a.type] if a.type is not None else []
        if isinstance(a, (ast.FunctionDef, ast.AsyncFunctionDef)):
            return list(a.decorator_list) + list(a.args.defaults) + [d for d in a.args.kw_defaults if d is not None]
        if isinstance(a, ast.ClassDef):
            return list(a.decorator_list) + list(a.bases)
        return [a]

    def walk(self) -> Iterator[ast.AST]:
        """all syntax nodes evaluated at this node (not entering nested defs/lambdas)"""
        stack = list(reversed(self.exprs()))
        while stack:
            n = stack.pop()
            yield n
            for c in ast.iter_child_nodes(n):
                if isinstance(c, FuncDefs) or isinstance(c, ast.ClassDef):
                    continue
                stack.append(c)

    def calls(self) -> list[ast.Call]:
        return [n for n in self.walk() if isinstance(n, ast.Call)]

    def succs(self, *labels: str) -> list["Node"]:
        return [n for n, l in self.succ if not labels or l in labels]

    def preds(self, *labels: str) -> list["Node"]:
        return [n for n, l in self.pred if not labels or l in labels]


@dataclass(eq=False)
class _Frame:
    kind: str  # loop | try | finally
    stmt: ast.AST
    head: Node | None = None  # loop
    breaks: list = field(default_factory=list)  # loop: dangling edges leaving by break
    handlers: list = field(default_factory=list)  # try
    catch_all: bool = False  # try
    body: list = field(default_factory=list)  # finally
    copies: dict = field(default_factory=dict)  # finally: way of entering -> marker node


def dotted_name(node: ast.AST) -> str | None:
    """``a.b.c`` for Name/Attribute chains, else None"""
    if isinstance(node, ast.Name):
        return node.id
    if isinstance(node, ast.Attribute):
        b = dotted_name(node.value)
        return None if b is None else f"{b}.{node.attr}"
    return None


def handler_types(h: ast.ExceptHandler) -> list[str]:
    if h.type is None:
        return ["*"]
    ts = h.type.elts if isinstance(h.type, ast.Tuple) else [h.type]
    return [dotted_name(t) or ast.unparse(t) for t in ts]


class CFG:
    def __init__(self, func: ast.FunctionDef, raisers: tuple[type, ...] = (ast.Call,)):
        if not isinstance(func, (ast.FunctionDef, ast.AsyncFunctionDef)):
            raise CFGError(f"CFG needs a function definition, got {type(func).__name__}")
        self.func = func
        self.raisers = raisers
        self.nodes: list[Node] = []
        self._by_ast: dict[int, list[Node]] = {}
        self.entry = self._new("entry", func)
        self.exit = self._new("exit", None)
        self.raise_exit = self._new("raise-exit", None)
        self._back: dict[Node, list[tuple[Node, str]]] = {}
        self.parent: dict[int, tuple[ast.AST, str]] = {}
        self._index_parents(func)
        body = list(func.body)
        out = self._seq(body, [(self.entry, "next")], ())
        self._connect(out, self.exit, relabel="fall")
        self._dom = None
        self._pdom: dict = {}
        self._reach = None

    # ================================================================ building
    def _new(self, kind: str, a: ast.AST | None) -> Node:
        n = Node(len(self.nodes), kind, a)
        self.nodes.append(n)
        if a is not None and kind != "entry":
            self._by_ast.setdefault(id(a), []).append(n)
        return n

    def _index_parents(self, func) -> None:
        def rec(st: ast.AST) -> None:
            for fld in ("body", "orelse", "finalbody"):
                for c in getattr(st, fld, []) or []:
                    if isinstance(c, ast.stmt):
                        self.parent[id(c)] = (st, fld)
                        if not isinstance(c, (ast.FunctionDef, ast.AsyncFunctionDef, ast.ClassDef)):
                            rec(c)
            for h in getattr(st, "handlers", []) or []:
                self.parent[id(h)] = (st, "handlers")
                for c in h.body:
                    self.parent[id(c)] = (h, "body")
                    if not isinstance(c, (ast.FunctionDef, ast.AsyncFunctionDef, ast.ClassDef)):
                        rec(c)

        rec(func)

    @staticmethod
    def _edge(a: Node, b: Node, label: str) -> None:
        if (b, label) not in a.succ:
            a.succ.append((b, label))
            b.pred.append((a, label))

    def _connect(self, dangling, target: Node, relabel: str | None = None) -> None:
        for n, l in dangling:
            self._edge(n, target, relabel if (relabel and l == "next") else l)

    def _may_raise(self, n: Node) -> bool:
        return any(isinstance(x, self.raisers) for x in n.walk())

    def _in_try(self, ctx) -> bool:
        return any(f.kind in ("try", "finally") for f in ctx)

    def _route(self, dangling, ctx, kind: str) -> None:
        """send dangling edges outward: kind in return | exc | break | continue"""
        if not dangling:
            return
        if not ctx:
            if kind == "return":
                self._connect(dangling, self.exit, relabel="return")
            elif kind == "exc":
                self._connect(dangling, self.raise_exit, relabel="raise")
            else:
                raise CFGError(f"'{kind}' outside a loop in {self.func.name}")
            return
        fr, outer = ctx[-1], ctx[:-1]
        if fr.kind == "finally":
            j = fr.copies.get(kind)
            if j is None:
                j = self._new("finally", fr.stmt)
                fr.copies[kind] = j
                out = self._seq(fr.body, [(j, "next")], outer)
                self._route(out, outer, kind)
            self._connect(dangling, j)
            return
        if fr.kind == "try" and kind == "exc":
            for h in fr.handlers:
                self._connect(dangling, h)
            if fr.catch_all:
                return
            self._route(dangling, outer, kind)
            return
        if fr.kind == "loop" and kind in ("break", "continue"):
            if kind == "break":
                fr.breaks.extend(dangling)
            else:
                for n, l in dangling:
                    self._edge(n, fr.head, l)
                    self._back.setdefault(fr.head, []).append((n, l))
            return
        self._route(dangling, outer, kind)

    def _simple(self, kind: str, st: ast.AST, dangling, ctx) -> Node:
        n = self._new(kind, st)
        self._connect(dangling, n)
        if kind != "raise" and self._in_try(ctx) and self._may_raise(n):
            self._route([(n, "exc")], ctx, "exc")
        return n

    def _seq(self, stmts: list[ast.stmt], dangling, ctx) -> list[tuple[Node, str]]:
        for st in stmts:
            if not dangling:
                # unreachable code after return/raise/break: still build it (detached)
                pass
            dangling = self._stmt(st, dangling, ctx)
        return dangling

    def _stmt(self, st: ast.stmt, dangling, ctx) -> list[tuple[Node, str]]:
        if isinstance(st, ast.If):
            n = self._simple("if", st, dangling, ctx)
            out = self._seq(st.body, [(n, "true")], ctx)
            out += self._seq(st.orelse, [(n, "false")], ctx) if st.orelse else [(n, "false")]
            return out
        if isinstance(st, (ast.While, ast.For, ast.AsyncFor)):
            kind = "while" if isinstance(st, ast.While) else "for"
            head = self._simple(kind, st, dangling, ctx)
            fr = _Frame("loop", st, head=head)
            const = None
            if kind == "while" and isinstance(st.test, ast.Constant):
                const = bool(st.test.value)
            body_out = [] if const is False else self._seq(st.body, [(head, "true")], ctx + (fr,))
            for n, l in body_out:
                lab = "back" if l == "next" else l
                self._edge(n, head, lab)
                self._back.setdefault(head, []).append((n, lab))
            out = []
            if const is not True:
                out = self._seq(st.orelse, [(head, "false")], ctx) if st.orelse else [(head, "false")]
            return out + fr.breaks
        if isinstance(st, (ast.With, ast.AsyncWith)):
            n = self._simple("with", st, dangling, ctx)
            return self._seq(st.body, [(n, "next")], ctx)
        if isinstance(st, ast.Try) or type(st).__name__ == "TryStar":
            marker = self._new("try", st)
            self._connect(dangling, marker)
            inner = ctx
            if st.finalbody:
                inner = inner + (_Frame("finally", st, body=list(st.finalbody)),)
            handlers = [self._new("except", h) for h in st.handlers]
            catch_all = any(set(handler_types(h)) & {"*", "BaseException"} for h in st.handlers)
            tfr = _Frame("try", st, handlers=handlers, catch_all=catch_all)
            out = self._seq(st.body, [(marker, "next")], inner + (tfr,) if handlers else inner)
            if st.orelse:
                out = self._seq(st.orelse, out, inner)
            for hn in handlers:
                out += self._seq(hn.ast.body, [(hn, "next")], inner)
            if st.finalbody:
                if out:
                    j = self._new("finally", st)
                    self._connect(out, j)
                    out = self._seq(st.finalbody, [(j, "next")], ctx)
            return out
        if isinstance(st, ast.Return):
            n = self._simple("return", st, dangling, ctx)
            self._route([(n, "return")], ctx, "return")
            return []
        if isinstance(st, ast.Raise):
            n = self._simple("raise", st, dangling, ctx)
            self._route([(n, "raise")], ctx, "exc")
            return []
        if isinstance(st, ast.Break):
            n = self._simple("break", st, dangling, ctx)
            self._route([(n, "break")], ctx, "break")
            return []
        if isinstance(st, ast.Continue):
            n = self._simple("continue", st, dangling, ctx)
            self._route([(n, "continue")], ctx, "continue")
            return []
        if isinstance(st, ast.Pass):
            n = self._simple("pass", st, dangling, ctx)
            return [(n, "next")]
        if type(st).__name__ == "Match":
            raise CFGError(f"match statement in {self.func.name} (line {st.lineno}) is outside the CFG grammar")
        if isinstance(
            st,
            (
                ast.Assign,
                ast.AugAssign,
                ast.AnnAssign,
                ast.Expr,
                ast.Assert,
                ast.Delete,
                ast.Import,
                ast.ImportFrom,
                ast.Global,
                ast.Nonlocal,
                ast.FunctionDef,
                ast.AsyncFunctionDef,
                ast.ClassDef,
            ),
        ) or type(st).__name__ == "TypeAlias":
            n = self._simple("stmt", st, dangling, ctx)
            return [(n, "next")]
        raise CFGError(f"unsupported statement {type(st).__name__} in {self.func.name} (line {getattr(st, 'lineno', '?')})")

    # ================================================================ look-up
    def nodes_of(self, a: ast.AST) -> list[Node]:
        """all nodes built for one syntax statement (several if it sits in a ``finally``)"""
        return list(self._by_ast.get(id(a), []))

    def node_of(self, a: ast.AST) -> Node:
        ns = self.nodes_of(a)
        if len(ns) != 1:
            raise CFGError(f"expected exactly one node for line {getattr(a, 'lineno', '?')}, found {len(ns)}")
        return ns[0]

    def find(self, pred: Callable[[Node], bool]) -> list[Node]:
        return [n for n in self.nodes if pred(n)]

    def find_calls(self, match: Callable[[ast.Call], bool]) -> list[tuple[Node, ast.Call]]:
        return [(n, c) for n in self.nodes for c in n.calls() if match(c)]

    def enclosing(self, x: Node | ast.AST) -> list[tuple[ast.AST, str]]:
        """syntactic ancestors ``(compound statement | handler, field)`` from the inside out"""
        a = x.ast if isinstance(x, Node) else x
        if isinstance(x, Node) and x.kind in ("entry", "exit", "raise-exit"):
            return []
        out = []
        while id(a) in self.parent:
            p, fld = self.parent[id(a)]
            out.append((p, fld))
            a = p
        return out

    def inside(self, x: Node | ast.AST, stmt: ast.AST, fld: str | None = None) -> bool:
        return any(p is stmt and (fld is None or f == fld) for p, f in self.enclosing(x))

    def back_edges(self, loop: Node) -> list[tuple[Node, str]]:
        return list(self._back.get(loop, []))

    def loop_nodes(self, loop: Node) -> set[Node]:
        """natural loop of ``loop``: nodes that reach a back-edge without leaving through the head"""
        body = {loop}
        work = [s for s, _ in self.back_edges(loop)]
        while work:
            n = work.pop()
            if n in body:
                continue
            body.add(n)
            work.extend(p for p, _ in n.pred)
        return body

    def is_reachable(self, n: Node) -> bool:
        return n is self.entry or n in self.reachable([self.entry])

    # ================================================================ queries
    def reachable(
        self,
        srcs: Iterable[Node],
        avoid: Iterable[Node] = (),
        skip_labels: Iterable[str] = (),
        include_srcs: bool = False,
    ) -> set[Node]:
        """nodes reachable from ``srcs`` by >= 1 edge without *entering* a node of
        ``avoid`` and without using an edge labelled in ``skip_labels``"""
        avoid = set(avoid)
        skip = set(skip_labels)
        seen: set[Node] = set()
        srcs = list(srcs)
        work = list(srcs)
        started: set[Node] = set()
        while work:
            n = work.pop()
            if n in started:
                continue
            started.add(n)
            for s, l in n.succ:
                if l in skip or s in avoid:
                    continue
                if s not in seen:
                    seen.add(s)
                    work.append(s)
        if include_srcs:
            seen |= set(srcs)
        return seen

    def no_path(self, a: Iterable[Node] | Node, b: Iterable[Node] | Node, avoid: Iterable[Node] = (), skip_labels=()) -> bool:
        """True iff no node of ``b`` can be reached from a node of ``a`` (>= 1 edge)"""
        A = [a] if isinstance(a, Node) else list(a)
        B = {b} if isinstance(b, Node) else set(b)
        return not (self.reachable(A, avoid, skip_labels) & B)

    def must_pass(
        self,
        srcs: Iterable[Node] | Node,
        dsts: Iterable[Node] | Node,
        pred: Callable[[Node], bool],
        skip_labels=(),
    ) -> bool:
        """True iff every path from a source to a destination contains a node satisfying
        ``pred`` (end points count).  Vacuously true if there is no path at all."""
        S = [srcs] if isinstance(srcs, Node) else list(srcs)
        D = {dsts} if isinstance(dsts, Node) else set(dsts)
        S = [s for s in S if not pred(s)]
        D = {d for d in D if not pred(d)}
        if not S or not D:
            return True
        blocked = {n for n in self.nodes if pred(n)}
        return not (self.reachable(S, blocked, skip_labels, include_srcs=False) & D)

    # ---- dominators -----------------------------------------------------
    def _dominators(self, root: Node, succ_of, nodes: set[Node]) -> dict[Node, set[Node]]:
        dom = {n: set(nodes) for n in nodes}
        dom[root] = {root}
        preds: dict[Node, list[Node]] = {n: [] for n in nodes}
        for n in nodes:
            for s in succ_of(n):
                if s in nodes:
                    preds[s].append(n)
        changed = True
        order = sorted(nodes, key=lambda n: n.id)
        while changed:
            changed = False
            for n in order:
                if n is root:
                    continue
                ps = [dom[p] for p in preds[n]]
                new = set.intersection(*ps) if ps else set()
                new = new | {n}
                if new != dom[n]:
                    dom[n] = new
                    changed = True
        return dom

    def dominators(self) -> dict[Node, set[Node]]:
        if self._dom is None:
            nodes = self.reachable([self.entry], include_srcs=True)
            self._dom = self._dominators(self.entry, lambda n: [s for s, _ in n.succ], nodes)
        return self._dom

    def dominates(self, a: Node, b: Node) -> bool:
        """every path entry -> b passes a (b must be reachable)"""
        d = self.dominators()
        if b not in d:
            raise CFGError(f"dominates(): node {b!r} is unreachable")
        return a in d[b]

    def post_dominators(self, exits: Iterable[Node] | None = None) -> dict[Node, set[Node]]:
        """post-dominator sets over the paths that end in ``exits`` (default: the normal
        exit only, i.e. exceptional terminations are ignored).  Nodes that cannot reach
        those exits are absent from the result."""
        ex = tuple(sorted(exits or [self.exit], key=lambda n: n.id))
        if ex not in self._pdom:
            # virtual root joining the exits
            root = Node(-1, "virtual-exit")
            back_reach = set(ex)
            work = list(ex)
            while work:
                n = work.pop()
                for p, _ in n.pred:
                    if p not in back_reach:
                        back_reach.add(p)
                        work.append(p)
            nodes = back_reach | {root}

            def rsucc(n: Node):
                if n is root:
                    return list(ex)
                return [p for p, _ in n.pred]

            pd = self._dominators(root, rsucc, nodes)
            for v in pd.values():
                v.discard(root)
            pd.pop(root)
            self._pdom[ex] = pd
        return self._pdom[ex]

    def post_dominates(self, b: Node, a: Node, exits: Iterable[Node] | None = None) -> bool:
        """every path from ``a`` to a (non-raising) exit passes ``b``; ``a`` must be able
        to reach such an exit (otherwise CFGError -- never vacuous)"""
        pd = self.post_dominators(exits)
        if a not in pd:
            raise CFGError(f"post_dominates(): node {a!r} cannot reach the exit")
        return b in pd[a]

    def can_reach_exit(self, a: Node, exits: Iterable[Node] | None = None) -> bool:
        return a in self.post_dominators(exits)

    # ---- counting occurrences on paths -----------------------------------
    def path_counts(
        self,
        start: Node,
        pred: Callable[[Node], bool],
        stop_edges: Iterable[tuple[Node, Node]] = (),
        stop_nodes: Iterable[Node] = (),
    ) -> set[int]:
        """the set of possible numbers (capped at 2) of ``pred`` nodes on paths that
        begin at ``start`` (inclusive) and end by taking one of ``stop_edges`` or by
        entering one of ``stop_nodes`` (exclusive).  Paths that never get there
        (other exits) are ignored.  Cycles are handled by a fix-point."""
        stop_e = {(a, b) for a, b in stop_edges}
        stop_n = set(stop_nodes)
        counts: dict[Node, set[int]] = {}
        region = self.reachable([start], include_srcs=True)
        changed = True
        while changed:
            changed = False
            for n in region:
                c = 1 if pred(n) else 0
                new: set[int] = set()
                for s, _ in n.succ:
                    if (n, s) in stop_e or s in stop_n:
                        new.add(c)
                    else:
                        new |= {min(2, c + k) for k in counts.get(s, ())}
                if not new <= counts.get(n, set()):
                    counts[n] = counts.get(n, set()) | new
                    changed = True
        return counts.get(start, set())

    def exactly_once_before_back_edge(self, start: Node, loop: Node, pred: Callable[[Node], bool]) -> bool:
        """on every path from ``start`` to a back-edge of ``loop`` a ``pred`` node occurs
        exactly once (and at least one such path exists)"""
        edges = [(s, loop) for s, _ in self.back_edges(loop)]
        return self.path_counts(start, pred, stop_edges=edges) == {1}

    # ---- path enumeration --------------------------------------------------
    def simple_paths(self, src: Node, dst: Node | Iterable[Node], limit: int = 2000, skip_labels=()) -> tuple[list[list[Node]], bool]:
        """simple paths (no node twice) from src to dst; returns (paths, complete)"""
        D = {dst} if isinstance(dst, Node) else set(dst)
        skip = set(skip_labels)
        paths: list[list[Node]] = []
        complete = True
        stack: list[tuple[Node, int]] = [(src, 0)]
        path: list[Node] = []
        on: set[Node] = set()
        # iterative DFS
        it_stack: list[tuple[Node, Iterator]] = []
        path.append(src)
        on.add(src)
        it_stack.append((src, iter(list(src.succ))))
        del stack
        while it_stack:
            n, it = it_stack[-1]
            adv = False
            for s, l in it:
                if l in skip:
                    continue
                if s in D:
                    if len(paths) >= limit:
                        complete = False
                        return paths, complete
                    paths.append(path + [s])
                    continue
                if s in on:
                    continue
                path.append(s)
                on.add(s)
                it_stack.append((s, iter(list(s.succ))))
                adv = True
                break
            if not adv:
                it_stack.pop()
                on.discard(path.pop())
        return paths, complete

    # ================================================================ def-use
    @staticmethod
    def _targets(t: ast.AST) -> Iterator[str]:
        if isinstance(t, ast.Name):
            yield t.id
        elif isinstance(t, ast.Attribute):
            d = dotted_name(t)
            if d:
                yield d
        elif isinstance(t, (ast.Tuple, ast.List)):
            for e in t.elts:
                yield from CFG._targets(e)
        elif isinstance(t, ast.Starred):
            yield from CFG._targets(t.value)
        # Subscript stores do not (re)define a variable

    def defs_at(self, n: Node) -> set[str]:
        """names (and ``a.b`` attribute chains) bound at this node"""
        out: set[str] = set()
        a = n.ast
        if n.kind == "entry":
            ar = a.args
            for p in ar.posonlyargs + ar.args + ar.kwonlyargs:
                out.add(p.arg)
            if ar.vararg:
                out.add(ar.vararg.arg)
            if ar.kwarg:
                out.add(ar.kwarg.arg)
            return out
        if n.kind == "for":
            out |= set(self._targets(a.target))
        elif n.kind == "with":
            for it in a.items:
                if it.optional_vars is not None:
                    out |= set(self._targets(it.optional_vars))
        elif n.kind == "except":
            if a.name:
                out.add(a.name)
        elif isinstance(a, ast.Assign):
            for t in a.targets:
                out |= set(self._targets(t))
        elif isinstance(a, ast.AugAssign):
            out |= set(self._targets(a.target))
        elif isinstance(a, ast.AnnAssign):
            if a.value is not None:
                out |= set(self._targets(a.target))
        elif isinstance(a, (ast.FunctionDef, ast.AsyncFunctionDef, ast.ClassDef)):
            out.add(a.name)
        elif isinstance(a, (ast.Import, ast.ImportFrom)):
            for al in a.names:
                out.add((al.asname or al.name).split(".")[0])
        for x in n.walk():
            if isinstance(x, ast.NamedExpr):
                out |= set(self._targets(x.target))
        return out

    def reaching(self) -> dict[Node, dict[str, frozenset[Node]]]:
        """reaching definitions *on entry* to every node: var -> defining nodes.
        On an ``exc`` edge both the state before and after the raising node flow on."""
        if self._reach is not None:
            return self._reach
        gen = {n: self.defs_at(n) for n in self.nodes}
        IN: dict[Node, dict[str, set[Node]]] = {n: {} for n in self.nodes}
        OUT: dict[Node, dict[str, set[Node]]] = {n: {} for n in self.nodes}
        work = list(self.nodes)
        inq = set(work)
        while work:
            n = work.pop(0)
            inq.discard(n)
            out = {v: set(s) for v, s in IN[n].items()}
            for v in gen[n]:
                out[v] = {n}
            OUT[n] = out
            for s, l in n.succ:
                src = out
                changed = False
                tgt = IN[s]
                for v, ds in src.items():
                    if not ds <= tgt.get(v, set()):
                        tgt.setdefault(v, set()).update(ds)
                        changed = True
                if l in ("exc", "raise"):
                    for v, ds in IN[n].items():
                        if not ds <= tgt.get(v, set()):
                            tgt.setdefault(v, set()).update(ds)
                            changed = True
                if changed and s not in inq:
                    work.append(s)
                    inq.add(s)
        self._reach = {n: {v: frozenset(ds) for v, ds in d.items()} for n, d in IN.items()}
        return self._reach

    def defs_reaching(self, n: Node, var: str) -> frozenset[Node]:
        return self.reaching()[n].get(var, frozenset())

    def all_defs(self, var: str) -> list[Node]:
        return [n for n in self.nodes if var in self.defs_at(n)]

    # ================================================================ dump
    def dump(self) -> str:
        lines = [f"CFG of {self.func.name}: {len(self.nodes)} nodes"]
        reach = self.reachable([self.entry], include_srcs=True)
        for n in self.nodes:
            mark = " " if n in reach else "x"
            succ = ", ".join(f"{l}->{s.id}" for s, l in n.succ)
            ln = "" if n.lineno is None else f"L{n.lineno}"
            lines.append(f"{mark}{n.id:3d} {n.kind:10s} {ln:6s} {n.text[:70]:70s} [{succ}]")
        for h, es in self._back.items():
            lines.append(f"  loop {h.id}: back-edges from {[s.id for s, _ in es]}")
        return "\n".join(lines)


def def_value(n: Node, var: str):
    """what a defining node binds ``var`` to:
    ('expr', expr) | ('unpack', value_expr, index) | ('aug', op, expr) | ('iter', iter_expr)
    | ('param',) | ('other', kind)"""
    a = n.ast
    if n.kind == "entry":
        return ("param",)
    if n.kind == "for":
        return ("iter", a.iter)
    if isinstance(a, ast.AugAssign) and var in set(CFG._targets(a.target)):
        return ("aug", type(a.op).__name__, a.value)
    if isinstance(a, ast.AnnAssign) and a.value is not None and var in set(CFG._targets(a.target)):
        return ("expr", a.value)
    if isinstance(a, ast.Assign):
        for t in a.targets:
            if dotted_name(t) == var:
                return ("expr", a.value)
            if isinstance(t, (ast.Tuple, ast.List)):
                for i, e in enumerate(t.elts):
                    if dotted_name(e) == var:
                        if isinstance(a.value, (ast.Tuple, ast.List)) and len(a.value.elts) == len(t.elts):
                            return ("expr", a.value.elts[i])
                        return ("unpack", a.value, i)
    for x in n.walk():
        if isinstance(x, ast.NamedExpr) and dotted_name(x.target) == var:
            return ("expr", x.value)
    return ("other", n.kind)


def resolve_expr(cfg: "CFG", node: Node, expr: ast.AST, depth: int = 5, stop: Iterable[str] = ()) -> ast.AST:
    """copy of ``expr`` in which every local Name that has exactly one reaching
    definition ``name = <expression>`` at ``node`` is replaced by that expression
    (recursively, ``depth`` levels), provided the names used by that expression still
    have the same reaching definitions at ``node`` as they had at the definition (so
    the substitution is value-preserving).  Parameters, loop targets, unpacked values,
    augmented assignments and names in ``stop`` stay as they are.  This makes rules
    insensitive to hoisted sub-expressions and renamed temporaries."""
    import copy

    reach = cfg.reaching()
    stop = set(stop)

    def subst(e: ast.AST, at: Node, d: int) -> ast.AST:
        class T(ast.NodeTransformer):
            def visit_Lambda(self, n):  # noqa: N802
                return n

            def visit_Name(self, n: ast.Name):  # noqa: N802
                if not isinstance(n.ctx, ast.Load) or d <= 0 or n.id in stop:
                    return n
                defs = reach[at].get(n.id, frozenset())
                if len(defs) != 1:
                    return n
                (dn,) = defs
                val = def_value(dn, n.id)
                if val[0] != "expr":
                    return n
                rhs = val[1]
                here = cfg.defs_at(dn)
                for x in ast.walk(rhs):
                    if isinstance(x, ast.Name) and isinstance(x.ctx, ast.Load):
                        nm = x.id
                        if nm == n.id:
                            return n
                    elif isinstance(x, ast.Attribute) and isinstance(x.ctx, ast.Load):
                        nm = dotted_name(x)
                        if nm is None:
                            continue
                    else:
                        continue
                    if nm in here or reach[dn].get(nm, frozenset()) != reach[at].get(nm, frozenset()):
                        return n
                return subst(copy.deepcopy(rhs), dn, d - 1)

        return T().visit(e)

    return subst(copy.deepcopy(expr), node, depth)


def build_cfg(func: ast.FunctionDef, raisers: tuple[type, ...] = (ast.Call,)) -> CFG:
    return CFG(func, raisers)


def walk_shallow(root: ast.AST | list[ast.AST]) -> Iterator[ast.AST]:
    """ast.walk that does not enter nested function/class definitions (the root itself
    may be a function: its body is walked)"""
    roots = root if isinstance(root, list) else [root]
    stack: list[ast.AST] = []
    for r in reversed(roots):
        if isinstance(r, (ast.FunctionDef, ast.AsyncFunctionDef)):
            stack.extend(reversed(r.body))
        else:
            stack.append(r)
    while stack:
        n = stack.pop()
        yield n
        for c in ast.iter_child_nodes(n):
            if isinstance(c, (ast.FunctionDef, ast.AsyncFunctionDef, ast.ClassDef, ast.Lambda)):
                continue
            stack.append(c)


# ---------------------------------------------------------------------- debug CLI
def _find_def(tree: ast.Module, qualname: str) -> ast.FunctionDef:
    parts = qualname.split(".")

    def search(body: list[ast.stmt], k: int):
        for st in body:
            if isinstance(st, (ast.FunctionDef, ast.AsyncFunctionDef, ast.ClassDef)) and st.name == parts[k]:
                if k == len(parts) - 1:
                    return st
                r = search_all(st, k + 1)
                if r is not None:
                    return r
        return None

    def search_all(container: ast.AST, k: int):
        # nested definitions may sit under if/try/with blocks
        for n in ast.walk(container):
            if n is container:
                continue
            if isinstance(n, (ast.FunctionDef, ast.AsyncFunctionDef, ast.ClassDef)) and n.name == parts[k]:
                if k == len(parts) - 1:
                    return n
                r = search_all(n, k + 1)
                if r is not None:
                    return r
        return None

    r = search(tree.body, 0)
    if not isinstance(r, (ast.FunctionDef, ast.AsyncFunctionDef)):
        raise SystemExit(f"no function {qualname}")
    return r


def main(argv=None) -> int:
    argv = argv or sys.argv[1:]
    if len(argv) < 2:
        print("usage: python -m pdelint.cfg <file> <qualname> [--subscripts]")
        return 2
    from pathlib import Path

    from .core import repo_root

    p = Path(argv[0])
    if not p.exists():
        p = repo_root() / argv[0]
    tree = ast.parse(p.read_text())
    fn = _find_def(tree, argv[1])
    raisers = (ast.Call, ast.Subscript) if "--subscripts" in argv else (ast.Call,)
    g = CFG(fn, raisers)
    print(g.dump())
    pd = g.post_dominators()
    dom = g.dominators()
    print("post-dominators (over the normal exit) / dominators:")
    for n in g.nodes:
        if n in pd or n in dom:
            a = sorted(x.id for x in pd.get(n, ()) if x is not n)
            b = sorted(x.id for x in dom.get(n, ()) if x is not n)
            print(f"  {n.id:3d}: pdom={a} dom={b}")
    return 0


if __name__ == "__main__":
    try:
        sys.exit(main())
    except BrokenPipeError:
        sys.exit(0)

"""Shared plumbing: repository location, findings, known-findings, evidence, exit protocol."""

from __future__ import annotations

import hashlib
import json
import os
import sys
import time
import traceback
from dataclasses import dataclass, field
from pathlib import Path
from typing import Any

VERIF = Path(__file__).resolve().parent.parent
EVIDENCE_DIR = VERIF / "evidence"
REPLAY_DIR = Path(os.environ.get("PDELINT_REPLAY_DIR", VERIF / "replay"))
KNOWN_FILE = VERIF / "known_findings.json"

EXIT_OK, EXIT_VIOLATION, EXIT_ANALYSIS = 0, 1, 2


def repo_root() -> Path:
    return Path(os.environ.get("PDELINT_REPO", "/repo")).resolve()


class AnalysisError(Exception):
    """The analyser cannot decide (anchor vanished, syntax outside the grammar, floor
    not reached).  Never a pass, never a violation: exit code 2."""


@dataclass
class Finding:
    rule: str  # rule id, e.g. "C18.no-overwrite-after-accumulate"
    construct: str  # file::qualname::role  (never a line number)
    message: str
    data: dict = field(default_factory=dict)
    line: int | None = None  # for diagnosis only, not part of the key

    @property
    def key(self) -> str:
        return f"{self.rule}:{self.construct}"


def load_known() -> list[dict]:
    if not KNOWN_FILE.exists():
        return []
    return json.loads(KNOWN_FILE.read_text())["findings"]


def _jsonable(x: Any) -> Any:
    try:
        json.dumps(x)
        return x
    except TypeError:
        if isinstance(x, dict):
            return {str(k): _jsonable(v) for k, v in x.items()}
        if isinstance(x, (list, tuple, set, frozenset)):
            return [_jsonable(v) for v in x]
        return str(x)


class Report:
    """Collects what one check analysed and decides the exit status."""

    def __init__(self, pid: str, tier: str, level: str, technique: str = ""):
        self.pid = pid
        self.tier = tier
        self.level = level
        self.technique = technique
        self.seed = int(os.environ.get("VERIF_SEED", "0") or 0)
        self.t0 = time.time()
        self.findings: list[Finding] = []
        self.obligations: list[dict] = []  # {"name", "ok", "detail"}
        self.analysed: dict[str, list[str]] = {}
        self.samples: list[Any] = []
        self.notes: list[str] = []
        self.assumptions: list[str] = []
        self.trusted: list[str] = ["CPython ast", "sympy"]
        self.floors: list[dict] = []
        self.extra: dict[str, Any] = {}
        self.explanation = ""

    # ----------------------------------------------------------------- recording
    def saw(self, kind: str, name: str) -> None:
        self.analysed.setdefault(kind, []).append(name)

    def sample(self, s: Any, limit: int = 40) -> None:
        if len(self.samples) < limit:
            self.samples.append(_jsonable(s))

    def note(self, msg: str) -> None:
        self.notes.append(msg)

    def oblige(self, name: str, ok: bool, detail: Any = None) -> bool:
        """Record a proof obligation (name must be unique and stable)."""
        self.obligations.append({"name": name, "ok": bool(ok), "detail": _jsonable(detail)})
        return bool(ok)

    def violation(self, rule: str, construct: str, message: str, line: int | None = None, **data) -> None:
        f = Finding(rule=rule, construct=construct, message=message, data=_jsonable(data), line=line)
        if all(g.key != f.key for g in self.findings):
            self.findings.append(f)

    def floor(self, what: str, count: int, minimum: int) -> None:
        """Instance-count floor: a rule that matches fewer sites than were confirmed by
        hand makes the analysis broken (exit 2), never a vacuous pass."""
        self.floors.append({"what": what, "count": count, "min": minimum})
        if count < minimum:
            raise AnalysisError(f"floor not reached: {what}: found {count}, expected >= {minimum}")

    # ----------------------------------------------------------------- finishing
    def finish(self) -> int:
        known = [k for k in load_known() if k.get("property") == self.pid]
        known_keys = {k["key"]: k for k in known if k.get("status") == "known"}
        unknown: list[Finding] = []
        matched: list[Finding] = []
        for f in self.findings:
            (matched if f.key in known_keys else unknown).append(f)

        for f in matched:
            print(f"KNOWN-FINDING: property={self.pid} {known_keys[f.key]['what']} [{f.key}]")
        rc = EXIT_OK
        REPLAY_DIR.mkdir(parents=True, exist_ok=True)
        for f in unknown:
            digest = hashlib.sha1(f.key.encode()).hexdigest()[:12]
            path = REPLAY_DIR / f"{self.pid}-{digest}.json"
            path.write_text(
                json.dumps(
                    {
                        "property": self.pid,
                        "rule": f.rule,
                        "construct": f.construct,
                        "key": f.key,
                        "line": f.line,
                        "message": f.message,
                        "data": f.data,
                        "repo": str(repo_root()),
                    },
                    indent=1,
                    ensure_ascii=False,
                )
            )
            loc = f" (line {f.line})" if f.line else ""
            print(f"  finding: [{f.rule}] {f.construct}{loc}: {f.message}")
            print(f"VIOLATION property={self.pid} replay={path}")
            rc = EXIT_VIOLATION
        self._write_evidence(len(unknown), [f.key for f in matched])
        undischarged = [o["name"] for o in self.obligations if not o["ok"]]
        if undischarged and not self.findings:
            # an obligation failed but no rule reported a construct: never a pass
            print(f"ANALYSIS-ERROR property={self.pid}: obligation(s) not discharged and no finding names a construct: {undischarged[:5]}")
            rc = EXIT_ANALYSIS
        n_an = sum(len(v) for v in self.analysed.values())
        n_ob = len(self.obligations)
        n_ok = sum(1 for o in self.obligations if o["ok"])
        print(
            f"[{self.pid}/{self.tier}] analysed {n_an} constructs, obligations {n_ok}/{n_ob} discharged, "
            f"{len(unknown)} violation(s), {len(matched)} known finding(s), {time.time() - self.t0:.1f}s"
        )
        return rc

    def _write_evidence(self, n_viol: int, known_keys: list[str]) -> None:
        n_ob = len(self.obligations)
        n_ok = sum(1 for o in self.obligations if o["ok"])
        cov: dict[str, Any] = {
            "explanation": self.explanation or self.technique,
            "analysed": {k: sorted(set(v)) for k, v in self.analysed.items()},
            "analysed_counts": {k: len(v) for k, v in self.analysed.items()},
            "floors": self.floors,
            "samples": self.samples or [o for o in self.obligations[:10]],
            "notes": self.notes,
            "known_findings_matched": known_keys,
            "rule": self.technique,
            "trusted_base": self.trusted,
            "checker_cmd": f"bin/check {self.pid} --tier {self.tier}",
            "obligations": n_ob,
            "discharged": n_ok,
            "undischarged": [o["name"] for o in self.obligations if not o["ok"]][:50],
            "obligation_names": [o["name"] for o in self.obligations][:400],
            # generic fall-back keys: every count below is measured on this run
            "evaluations": max(n_ob, sum(len(v) for v in self.analysed.values())),
            "distinct_nontrivial": len({o["name"] for o in self.obligations})
            or len({x for v in self.analysed.values() for x in v}),
        }
        cov.update(self.extra)
        ev = {
            "property_id": self.pid,
            "tier": self.tier,
            "seed": self.seed,
            "level": self.level,
            "coverage": _jsonable(cov),
            "assumptions": self.assumptions,
            "wall_s": round(time.time() - self.t0, 3),
            "violations": n_viol,
        }
        if os.environ.get("PDELINT_NO_EVIDENCE"):
            return
        EVIDENCE_DIR.mkdir(exist_ok=True)
        (EVIDENCE_DIR / f"{self.pid}.json").write_text(json.dumps(ev, indent=1, ensure_ascii=False) + "\n")


def thorough_selftest(rep: "Report") -> None:
    """thorough tier: run the checker's own mutation corpus (``mutants/<pid>.json``) on scratch
    copies of the analysed tree; a mutant that does not behave as recorded makes the checker
    itself unreliable -> analysis error (exit 2), never a pass"""
    if rep.tier != "thorough" or os.environ.get("PDELINT_SELFTEST") or "selftest" in rep.extra:
        return
    known = {k["key"] for k in load_known() if k.get("property") == rep.pid and k.get("status") == "known"}
    if any(f.key not in known for f in rep.findings):
        rep.note("mutation self-test skipped: the analysed tree has findings that are not listed as known, so behaviour-preserving twins cannot exit 0")
        return
    from .selftest import run_selftest

    res = run_selftest(rep.pid, jobs=max(1, (os.cpu_count() or 2) // 2))
    bad = [r for r in res if not r["ok"]]
    for r in res:
        rep.oblige(f"selftest:{r['name']}", r["ok"], r.get("why") or r.get("expect"))
    rep.extra["selftest"] = {
        "mutants": len(res),
        "as_expected": len(res) - len(bad),
        "fire": sum(1 for r in res if r.get("expect") == "fire"),
        "silent": sum(1 for r in res if r.get("expect") == "silent"),
    }
    rep.floor("mutants in the self-test corpus", len(res), 9)
    if bad:
        raise AnalysisError("mutation self-test failed: " + "; ".join(f"{r['name']}: {r.get('why')}" for r in bad[:5]))


def run_check(pid: str, tier: str, fn) -> int:
    """Run ``fn(tier) -> Report`` under the exit protocol."""
    import signal

    limit = int(os.environ.get("PDELINT_TIME_LIMIT", "2400" if tier == "quick" else "14400"))

    def _alarm(signum, frame):
        raise AnalysisError(f"time limit of {limit} s exceeded (a symbolic computation does not terminate); undecided")

    try:
        signal.signal(signal.SIGALRM, _alarm)
        signal.alarm(limit)
    except (ValueError, AttributeError):
        pass
    try:
        rep = fn(tier)
        rep.tier = tier
        thorough_selftest(rep)
        return rep.finish()
    except AnalysisError as e:
        print(f"ANALYSIS-ERROR property={pid}: {e}")
        return EXIT_ANALYSIS
    except Exception as e:  # noqa: BLE001 -- a traceback must not look like a violation
        traceback.print_exc(file=sys.stdout)
        print(f"ANALYSIS-ERROR property={pid}: internal error {type(e).__name__}: {e}")
        return EXIT_ANALYSIS


def run_sections(rep: Report, sections, *args, jobs: int | None = None) -> None:
    """run independent section functions ``fn(rep, *args)`` in forked workers and merge
    what they recorded into ``rep`` (order of sections is preserved)"""
    import multiprocessing as mp

    def work(fn):
        sub = Report(rep.pid, rep.tier, rep.level, rep.technique)
        try:
            fn(sub, *args)
        except AnalysisError as e:
            return {"error": str(e)}
        return {
            "findings": sub.findings,
            "obligations": sub.obligations,
            "analysed": sub.analysed,
            "samples": sub.samples,
            "notes": sub.notes,
            "floors": sub.floors,
            "assumptions": sub.assumptions,
        }

    global _SECTION_WORK
    _SECTION_WORK = work
    with mp.get_context("fork").Pool(min(len(sections), jobs or os.cpu_count() or 1)) as pool:
        results = pool.map(_call_section, list(sections), chunksize=1)
    for res in results:
        if "error" in res:
            raise AnalysisError(res["error"])
        for f in res["findings"]:
            if all(g.key != f.key for g in rep.findings):
                rep.findings.append(f)
        rep.obligations += res["obligations"]
        for k, v in res["analysed"].items():
            rep.analysed.setdefault(k, []).extend(v)
        for s_ in res["samples"]:
            rep.sample(s_)
        rep.notes += res["notes"]
        rep.floors += res["floors"]
        rep.assumptions += res["assumptions"]


_SECTION_WORK = None


def _call_section(fn):
    return _SECTION_WORK(fn)

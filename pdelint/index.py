"""E0 -- program index over the syntax trees of ``<repo>/pde``.

Modules -> classes (bases resolved through imports, linearised MRO), functions and
methods (incl. nested definitions, addressed as ``outer.inner``), decorators,
import tables.  Nothing is imported or executed.
"""

from __future__ import annotations

import ast
from dataclasses import dataclass, field
from functools import lru_cache
from pathlib import Path

from .core import AnalysisError, repo_root


@dataclass(eq=False, repr=False)
class FuncInfo:
    module: "ModuleInfo"
    qualname: str
    node: ast.FunctionDef
    cls: "ClassInfo | None" = None
    parent: "FuncInfo | None" = None

    @property
    def ref(self) -> str:
        return f"{self.module.rel}::{self.qualname}"

    def __repr__(self) -> str:
        return f"<Func {self.ref}>"

    @property
    def decorator_names(self) -> list[str]:
        return [dotted(d.func if isinstance(d, ast.Call) else d) for d in self.node.decorator_list]

    def decorator(self, name: str) -> ast.expr | None:
        for d in self.node.decorator_list:
            dn = dotted(d.func if isinstance(d, ast.Call) else d)
            if dn == name or dn.endswith("." + name):
                return d
        return None

    def nested(self) -> list["FuncInfo"]:
        return [f for f in self.module.functions.values() if f.parent is self]


@dataclass(eq=False, repr=False)
class ClassInfo:
    module: "ModuleInfo"
    name: str
    node: ast.ClassDef
    base_exprs: list[str] = field(default_factory=list)
    bases: list["ClassInfo"] = field(default_factory=list)
    methods: dict[str, list[FuncInfo]] = field(default_factory=dict)  # name -> defs (getter, setter...)
    attrs: dict[str, ast.expr] = field(default_factory=dict)  # class-level assignments

    @property
    def ref(self) -> str:
        return f"{self.module.rel}::{self.name}"

    def __repr__(self) -> str:
        return f"<Class {self.ref}>"

    def mro(self) -> list["ClassInfo"]:
        out: list[ClassInfo] = []

        def visit(c: ClassInfo) -> None:
            if c in out:
                return
            out.append(c)
            for b in c.bases:
                visit(b)

        # simple depth-first linearisation; the repository has no diamonds that matter
        # except mixins listed first, for which DFS order equals C3 order
        visit(self)
        return out

    def find_method(self, name: str, kind: str | None = None) -> FuncInfo | None:
        """kind: None (first def), 'setter', 'getter'"""
        for c in self.mro():
            for f in c.methods.get(name, []):
                decs = f.decorator_names
                is_setter = any(d.endswith(".setter") for d in decs)
                if kind == "setter" and not is_setter:
                    continue
                if kind in (None, "getter") and is_setter:
                    continue
                return f
        return None

    def find_attr(self, name: str) -> tuple["ClassInfo", ast.expr] | None:
        for c in self.mro():
            if name in c.attrs:
                return c, c.attrs[name]
        return None

    def is_subclass_of(self, other: "ClassInfo | str") -> bool:
        for c in self.mro():
            if c is other or c.name == other:
                return True
        return False


@dataclass(eq=False, repr=False)
class ModuleInfo:
    rel: str  # e.g. pde/grids/base.py
    path: Path
    tree: ast.Module
    source: str
    modname: str  # pde.grids.base
    imports: dict[str, str] = field(default_factory=dict)  # local name -> dotted target
    functions: dict[str, FuncInfo] = field(default_factory=dict)  # qualname -> info
    classes: dict[str, ClassInfo] = field(default_factory=dict)
    assigns: dict[str, ast.expr] = field(default_factory=dict)  # module-level NAME = expr

    def __repr__(self) -> str:
        return f"<Module {self.rel}>"


def dotted(node: ast.AST) -> str:
    if isinstance(node, ast.Name):
        return node.id
    if isinstance(node, ast.Attribute):
        return dotted(node.value) + "." + node.attr
    if isinstance(node, ast.Call):
        return dotted(node.func) + "()"
    if isinstance(node, ast.Subscript):
        return dotted(node.value) + "[]"
    return type(node).__name__


class Index:
    def __init__(self, root: Path | None = None, package: str = "pde"):
        self.root = Path(root) if root else repo_root()
        self.package = package
        self.modules: dict[str, ModuleInfo] = {}
        self.by_modname: dict[str, ModuleInfo] = {}
        self._load()
        self._link()

    # ------------------------------------------------------------------ loading
    def _load(self) -> None:
        pkg = self.root / self.package
        if not pkg.is_dir():
            raise AnalysisError(f"package directory {pkg} not found")
        for path in sorted(pkg.rglob("*.py")):
            rel = path.relative_to(self.root).as_posix()
            src = path.read_text(encoding="utf-8")
            try:
                tree = ast.parse(src, filename=str(path))
            except SyntaxError as e:
                raise AnalysisError(f"cannot parse {rel}: {e}") from e
            parts = list(path.relative_to(self.root).with_suffix("").parts)
            if parts[-1] == "__init__":
                parts = parts[:-1]
            m = ModuleInfo(rel=rel, path=path, tree=tree, source=src, modname=".".join(parts))
            self.modules[rel] = m
            self.by_modname[m.modname] = m
            self._scan_module(m)

    def _scan_module(self, m: ModuleInfo) -> None:
        is_pkg = m.path.name == "__init__.py"
        pkg_parts = m.modname.split(".") if is_pkg else m.modname.split(".")[:-1]

        def scan_imports(body: list[ast.stmt]) -> None:
            for st in body:
                if isinstance(st, ast.Import):
                    for a in st.names:
                        m.imports[a.asname or a.name.split(".")[0]] = a.name if a.asname else a.name.split(".")[0]
                elif isinstance(st, ast.ImportFrom):
                    if st.level:
                        base = pkg_parts[: len(pkg_parts) - (st.level - 1)]
                        mod = ".".join(base + ([st.module] if st.module else []))
                    else:
                        mod = st.module or ""
                    for a in st.names:
                        m.imports[a.asname or a.name] = f"{mod}.{a.name}"
                elif isinstance(st, (ast.If, ast.Try)):
                    for sub in ast.iter_child_nodes(st):
                        if isinstance(sub, ast.stmt):
                            scan_imports([sub])
                    if isinstance(st, ast.If):
                        scan_imports(st.body)
                        scan_imports(st.orelse)

        scan_imports(m.tree.body)

        def scan_func(node: ast.FunctionDef, prefix: str, cls: ClassInfo | None, parent: FuncInfo | None) -> FuncInfo:
            qn = f"{prefix}{node.name}"
            fi = FuncInfo(module=m, qualname=qn, node=node, cls=cls, parent=parent)
            # several defs can share a qualname (property getter/setter, if/else variants)
            key = qn
            n = 2
            while key in m.functions:
                key = f"{qn}#{n}"
                n += 1
            fi.qualname = key
            m.functions[key] = fi
            for sub in ast.walk(node):
                pass
            self._scan_nested(node.body, key + ".", cls, fi, scan_func)
            return fi

        for st in m.tree.body:
            if isinstance(st, ast.FunctionDef):
                scan_func(st, "", None, None)
            elif isinstance(st, ast.ClassDef):
                self._scan_class(m, st, scan_func)
            elif isinstance(st, ast.Assign) and len(st.targets) == 1 and isinstance(st.targets[0], ast.Name):
                m.assigns[st.targets[0].id] = st.value
            elif isinstance(st, ast.AnnAssign) and isinstance(st.target, ast.Name) and st.value is not None:
                m.assigns[st.target.id] = st.value

    def _scan_nested(self, body, prefix, cls, parent, scan_func) -> None:
        for st in body:
            if isinstance(st, ast.FunctionDef):
                scan_func(st, prefix, cls, parent)
            elif isinstance(st, ast.ClassDef):
                continue
            else:
                for fld in ("body", "orelse", "finalbody", "handlers"):
                    sub = getattr(st, fld, None)
                    if isinstance(sub, list):
                        items = []
                        for x in sub:
                            if isinstance(x, ast.ExceptHandler):
                                items.extend(x.body)
                            else:
                                items.append(x)
                        self._scan_nested(items, prefix, cls, parent, scan_func)

    def _scan_class(self, m: ModuleInfo, node: ast.ClassDef, scan_func) -> None:
        ci = ClassInfo(module=m, name=node.name, node=node, base_exprs=[dotted(b) for b in node.bases])
        m.classes[node.name] = ci
        for st in node.body:
            if isinstance(st, ast.FunctionDef):
                fi = scan_func(st, node.name + ".", ci, None)
                ci.methods.setdefault(st.name, []).append(fi)
            elif isinstance(st, ast.Assign):
                for t in st.targets:
                    if isinstance(t, ast.Name):
                        ci.attrs[t.id] = st.value
            elif isinstance(st, ast.AnnAssign) and isinstance(st.target, ast.Name) and st.value is not None:
                ci.attrs[st.target.id] = st.value

    # ------------------------------------------------------------------ linking
    def _link(self) -> None:
        for m in self.modules.values():
            for c in m.classes.values():
                for b in c.base_exprs:
                    b0 = b.split("[")[0]
                    target = self.resolve_class(m, b0)
                    if target is not None:
                        c.bases.append(target)

    def resolve_name(self, m: ModuleInfo, name: str, _depth: int = 0):
        """Resolve a (possibly dotted) name used in module ``m`` to a ClassInfo /
        FuncInfo / ModuleInfo / ('assign', module, expr), following re-exports."""
        if _depth > 8:
            return None
        head, _, rest = name.partition(".")
        if head in m.classes and not rest:
            return m.classes[head]
        if head in m.functions and not rest:
            return m.functions[head]
        if head in m.assigns and not rest:
            return ("assign", m, m.assigns[head])
        if head in m.imports:
            target = m.imports[head]
            full = target + ("." + rest if rest else "")
            return self.resolve_dotted(full, _depth + 1)
        return None

    def resolve_dotted(self, full: str, _depth: int = 0):
        parts = full.split(".")
        for k in range(len(parts), 0, -1):
            modname = ".".join(parts[:k])
            if modname in self.by_modname:
                m = self.by_modname[modname]
                rest = ".".join(parts[k:])
                if not rest:
                    return m
                r = self.resolve_name(m, rest, _depth + 1)
                if r is not None:
                    return r
                # class attribute access such as NumbaBackend.register_operator
                head, _, tail = rest.partition(".")
                c = self.resolve_name(m, head, _depth + 1)
                if isinstance(c, ClassInfo) and tail:
                    f = c.find_method(tail)
                    if f:
                        return f
                return None
        return None

    def resolve_class(self, m: ModuleInfo, name: str) -> ClassInfo | None:
        r = self.resolve_name(m, name)
        return r if isinstance(r, ClassInfo) else None

    # ------------------------------------------------------------------ queries
    def module(self, rel: str) -> ModuleInfo:
        if rel not in self.modules:
            raise AnalysisError(f"anchor vanished: module {rel}")
        return self.modules[rel]

    def func(self, rel: str, qualname: str) -> FuncInfo:
        m = self.module(rel)
        if qualname not in m.functions:
            raise AnalysisError(f"anchor vanished: {rel}::{qualname}")
        return m.functions[qualname]

    def funcs(self, rel: str, qualname: str) -> list[FuncInfo]:
        """all definitions sharing a qualname (if/else variants, getter/setter)"""
        m = self.module(rel)
        out = [f for k, f in m.functions.items() if k == qualname or k.startswith(qualname + "#")]
        if not out:
            raise AnalysisError(f"anchor vanished: {rel}::{qualname}")
        return out

    def cls(self, rel: str, name: str) -> ClassInfo:
        m = self.module(rel)
        if name not in m.classes:
            raise AnalysisError(f"anchor vanished: class {rel}::{name}")
        return m.classes[name]

    def all_classes(self) -> list[ClassInfo]:
        return [c for m in self.modules.values() for c in m.classes.values()]

    def all_functions(self) -> list[FuncInfo]:
        return [f for m in self.modules.values() for f in m.functions.values()]

    def subclasses(self, base: ClassInfo, strict: bool = False) -> list[ClassInfo]:
        return [c for c in self.all_classes() if c.is_subclass_of(base) and (not strict or c is not base)]


@lru_cache(maxsize=4)
def get_index(root: str | None = None) -> Index:
    return Index(Path(root) if root else None)


# ---------------------------------------------------------------------- helpers
def const_value(node: ast.AST):
    """literal value of an ast node or raise ValueError"""
    try:
        return ast.literal_eval(node)
    except Exception as e:  # noqa: BLE001
        raise ValueError(ast.dump(node)) from e


def call_kwargs(call: ast.Call) -> dict[str, ast.expr]:
    return {k.arg: k.value for k in call.keywords if k.arg}


def strip_doc(body: list[ast.stmt]) -> list[ast.stmt]:
    if body and isinstance(body[0], ast.Expr) and isinstance(body[0].value, ast.Constant) and isinstance(body[0].value.value, str):
        return body[1:]
    return body


def norm_src(node: ast.AST) -> str:
    """normalised statement/expression text (stable under formatting)"""
    return ast.unparse(node)

"""Light-weight structured path enumeration over one function body.

Enumerates the paths of a function (if/elif/else, try/except/else/finally, with,
for/while taken zero or one time, return/raise/break/continue) and reports, for each
statement matching a predicate, the branch decisions taken before it.  Boolean
constants assigned to plain names on the path are propagated so that
``flag = True ... if flag:`` does not create infeasible paths.
"""

from __future__ import annotations

import ast
from dataclasses import dataclass, field


@dataclass
class Path:
    tests: list = field(default_factory=list)  # [(test expr, polarity)]
    consts: dict = field(default_factory=dict)  # name -> bool constant
    events: list = field(default_factory=list)  # [(kind, node)] user-defined events
    target_line: int = 0
    in_handler: list = field(default_factory=list)

    @property
    def tests_passed(self):
        return self.tests

    def clone(self) -> "Path":
        return Path(list(self.tests), dict(self.consts), list(self.events), self.target_line, list(self.in_handler))


def _const_bool(node: ast.expr, consts: dict):
    if isinstance(node, ast.Constant) and isinstance(node.value, bool):
        return node.value
    if isinstance(node, ast.Name) and node.id in consts:
        return consts[node.id]
    if isinstance(node, ast.UnaryOp) and isinstance(node.op, ast.Not):
        v = _const_bool(node.operand, consts)
        return None if v is None else (not v)
    return None


def _may_raise(st: ast.stmt) -> bool:
    return any(isinstance(n, (ast.Call, ast.Raise, ast.Subscript)) for n in ast.walk(st))


class Walker:
    def __init__(self, predicate, event=None, max_paths: int = 4000):
        self.predicate = predicate
        self.event = event
        self.hits: list[Path] = []
        self.max_paths = max_paths
        self.ends: list[tuple[Path, str]] = []

    def block(self, stmts, states):
        """states: list[Path]; returns list[(Path, outcome)] with outcome 'fall'|'return'|'raise'|'break'|'continue'"""
        live = [(s, "fall") for s in states]
        for st in stmts:
            nxt = []
            for s, oc in live:
                if oc != "fall":
                    nxt.append((s, oc))
                    continue
                nxt.extend(self.stmt(st, s))
            live = nxt
            if len(live) > self.max_paths:
                raise RuntimeError("too many paths")
        return live

    def stmt(self, st, s: Path):
        if self.predicate(st):
            h = s.clone()
            h.target_line = getattr(st, "lineno", 0)
            self.hits.append(h)
        if self.event is not None:
            ev = self.event(st)
            if ev is not None:
                s = s.clone()
                s.events.append((ev, st))
        if isinstance(st, ast.If):
            v = _const_bool(st.test, s.consts)
            out = []
            if v is not False:
                a = s.clone()
                a.tests.append((st.test, True))
                out += self.block(st.body, [a])
            if v is not True:
                b = s.clone()
                b.tests.append((st.test, False))
                out += self.block(st.orelse, [b])
            return out
        if isinstance(st, (ast.For, ast.While)):
            out = []
            skip = s.clone()
            if isinstance(st, ast.While):
                skip.tests.append((st.test, False))
            out += self.block(st.orelse, [skip])
            once = s.clone()
            if isinstance(st, ast.While):
                once.tests.append((st.test, True))
            for p, oc in self.block(st.body, [once]):
                if oc in ("fall", "continue"):
                    out += self.block(st.orelse, [p])
                elif oc == "break":
                    out.append((p, "fall"))
                else:
                    out.append((p, oc))
            return out
        if isinstance(st, ast.With):
            return self.block(st.body, [s])
        if isinstance(st, ast.Try):
            out = []
            body_res = self.block(st.body, [s.clone()])
            # normal completion -> else
            after = []
            for p, oc in body_res:
                if oc == "fall":
                    after += self.block(st.orelse, [p])
                elif oc == "raise" and st.handlers:
                    for h in st.handlers:
                        q = p.clone()
                        q.in_handler.append(h)
                        after += self.block(h.body, [q])
                else:
                    after.append((p, oc))
            # an exception raised by a call inside the body (state: as at try entry)
            if st.handlers and any(_may_raise(x) for x in st.body):
                for h in st.handlers:
                    q = s.clone()
                    q.in_handler.append(h)
                    after += self.block(h.body, [q])
            if st.finalbody:
                fin = []
                for p, oc in after:
                    for p2, oc2 in self.block(st.finalbody, [p]):
                        fin.append((p2, oc if oc2 == "fall" else oc2))
                after = fin
            return after
        if isinstance(st, ast.Return):
            return [(s, "return")]
        if isinstance(st, ast.Raise):
            return [(s, "raise")]
        if isinstance(st, ast.Break):
            return [(s, "break")]
        if isinstance(st, ast.Continue):
            return [(s, "continue")]
        if isinstance(st, ast.Assign) and len(st.targets) == 1 and isinstance(st.targets[0], ast.Name):
            s = s.clone()
            v = _const_bool(st.value, {})
            if v is None:
                s.consts.pop(st.targets[0].id, None)
            else:
                s.consts[st.targets[0].id] = v
            return [(s, "fall")]
        if isinstance(st, (ast.FunctionDef, ast.ClassDef)):
            return [(s, "fall")]
        return [(s, "fall")]


def paths_to(func: ast.FunctionDef, predicate, event=None) -> list[Path]:
    """all (path prefix) states at which a statement satisfying ``predicate`` is reached"""
    w = Walker(predicate, event)
    body = func.body
    w.ends = w.block(body, [Path()])
    return w.hits


def all_paths(func: ast.FunctionDef, event=None) -> list[tuple[Path, str]]:
    """every complete path with its outcome ('fall'/'return'/'raise')"""
    w = Walker(lambda st: False, event)
    return w.block(func.body, [Path()])

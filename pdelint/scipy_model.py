"""Whole-array ("lazy") value semantics for the scipy.ndimage based kernels.

``LazyArr`` is a function from an absolute index of the underlying padded array to a
sympy term.  The two SciPy calls the repository uses are given their documented
semantics (trusted base):

* ``ndimage.correlate1d(a, w, axis)[p] = sum_j w[j] * a[p + (j - len(w)//2) e_axis]``
* ``ndimage.laplace(a)[p] = sum_axes a[p+e] - 2 a[p] + a[p-e]``

(the boundary mode only affects the outermost layer, which every kernel discards by
indexing with ``valid``).
"""

from __future__ import annotations

import ast

import sympy as sp

from .fx import ALL, Interp, LoopInfo, Model, SymArray, Unsupported, Vec, to_py

GENERIC = ("i", "j", "k")


class LazyArr:
    def __init__(self, it: Interp, lo: list, ext: list, fn):
        self.it = it
        self.lo = list(lo)  # absolute index of element 0 per axis
        self.ext = list(ext)  # extents
        self.fn = fn  # fn(tuple abs idx) -> term
        self.model = Model(
            "lazy-array",
            {
                "__getitem__": self.getitem,
                "__binop__": self.binop,
                "__lazy__": self,
                "shape": tuple(self.ext),
                "ndim": len(self.ext),
            },
        )

    @staticmethod
    def of(it: Interp, v):
        """view of a shaped SymArray -> LazyArr over its open axes"""
        if isinstance(v, Model) and "__lazy__" in v._attrs:
            return v._attrs["__lazy__"]
        if isinstance(v, SymArray) and v.slots is not None:
            opens = [s for s in v.slots if s[0] == "open"]
            lo = [s[1] for s in opens]
            ext = [s[2] - s[1] for s in opens]

            def fn(idx, v=v):
                # idx are absolute indices of the base array for the open axes
                slots = []
                k = 0
                for s in v.slots:
                    if s[0] == "fix":
                        slots.append(s)
                    else:
                        slots.append(("fix", idx[k]))
                        k += 1
                return SymArray(v.base, (), it, shape=v.shape, slots=slots).cell()

            return LazyArr(it, lo, ext, fn)
        return None

    def getitem(self, key):
        key = list(key)
        n = len(self.ext)
        n_expl = sum(1 for k in key if k is not Ellipsis)
        if Ellipsis in key:
            e = key.index(Ellipsis)
            key = key[:e] + [ALL] * (n - n_expl) + key[e + 1 :]
        key += [ALL] * (n - len(key))
        lo, ext = list(self.lo), list(self.ext)
        for ax, k in enumerate(key):
            if k is ALL:
                continue
            if isinstance(k, tuple) and k and k[0] == "slice":
                a, b, st = k[1:]
                if st not in (None, 1):
                    raise Unsupported("strided slice of a lazy array")
                a = 0 if a is None else to_py(a)
                b = 0 if b is None else to_py(b)
                if not (isinstance(a, int) and isinstance(b, int) and a >= 0 and b <= 0):
                    raise Unsupported(f"slice {k} of a lazy array")
                lo[ax] = lo[ax] + a
                ext[ax] = ext[ax] - a + b
                continue
            raise Unsupported(f"index {k} into a lazy array")
        return LazyArr(self.it, lo, ext, self.fn).model

    def binop(self, op, me, other, reflected):
        o = LazyArr.of(self.it, other)
        if o is not None:
            fa, fb = (o.fn, self.fn) if reflected else (self.fn, o.fn)
            return LazyArr(self.it, self.lo, self.ext, lambda idx: self.it.scalar_binop(op, sp.sympify(fa(idx)), sp.sympify(fb(idx)), None)).model
        c = self.it.as_expr(other)
        if isinstance(c, Vec):
            raise Unsupported("vector times lazy array")
        if reflected:
            return LazyArr(self.it, self.lo, self.ext, lambda idx: self.it.scalar_binop(op, sp.sympify(c), sp.sympify(self.fn(idx)), None)).model
        return LazyArr(self.it, self.lo, self.ext, lambda idx: self.it.scalar_binop(op, sp.sympify(self.fn(idx)), sp.sympify(c), None)).model


def install(it: Interp, n_axes: int):
    """enable lazy whole-array semantics on an interpreter (for the scipy kernels)"""
    syms = [sp.Symbol(n, integer=True) for n in GENERIC[:n_axes]]
    loops = [LoopInfo(var=s.name, sym=s, lo=1, hi=sp.Symbol(f"N{k}") + 1, kind="range", line=0, func="<whole-array>") for k, s in enumerate(syms)]
    it.all_loops.extend(loops)

    def correlate1d(a, weights, axis=-1, **kw):
        la = LazyArr.of(it, a)
        if la is None:
            raise Unsupported(f"correlate1d of {a!r}")
        w = list(weights.items if isinstance(weights, Vec) else weights)
        half = len(w) // 2
        axis = to_py(axis)
        if axis < 0:
            axis += len(la.ext)

        def fn(idx):
            tot = sp.Integer(0)
            for j, wj in enumerate(w):
                wj = it.as_expr(wj)
                if wj == 0:
                    continue
                p = list(idx)
                p[axis] = p[axis] + (j - half)
                tot += wj * la.fn(tuple(p))
            return tot

        return LazyArr(it, la.lo, la.ext, fn).model

    def laplace(a, **kw):
        la = LazyArr.of(it, a)
        if la is None:
            raise Unsupported(f"ndimage.laplace of {a!r}")

        def fn(idx):
            tot = sp.Integer(0)
            for ax in range(len(idx)):
                up, dn = list(idx), list(idx)
                up[ax] += 1
                dn[ax] -= 1
                tot += la.fn(tuple(up)) - 2 * la.fn(tuple(idx)) + la.fn(tuple(dn))
            return tot

        return LazyArr(it, la.lo, la.ext, fn).model

    ndimage = Model("ndimage", {"correlate1d": correlate1d, "laplace": laplace})

    orig_importfrom = it.exec_ImportFrom

    def exec_importfrom(st, env):
        if st.module == "scipy" and any(a.name == "ndimage" for a in st.names):
            env.set("ndimage", ndimage)
            return
        orig_importfrom(st, env)

    it.exec_ImportFrom = exec_importfrom

    # scalar * shaped array  ->  lazy array
    orig_binop = it.binop

    def binop(op, a, b, node=None):
        la = isinstance(a, SymArray) and a.slots is not None and any(s[0] == "open" for s in a.slots)
        lb = isinstance(b, SymArray) and b.slots is not None and any(s[0] == "open" for s in b.slots)
        if la and not isinstance(b, Model):
            return LazyArr.of(it, a).binop(op, None, b, False)
        if lb and not isinstance(a, Model):
            return LazyArr.of(it, b).binop(op, None, a, True)
        return orig_binop(op, a, b, node)

    it.binop = binop

    # stores of lazy arrays expand over the generic cell (i-1, j-1, ...)
    orig_store = it.store

    def store(view: SymArray, _u, value, aug, st):
        lz = LazyArr.of(it, value) if isinstance(value, Model) else None
        if lz is None and not (isinstance(value, (int, sp.Basic)) and view.slots is not None and any(s[0] == "open" for s in view.slots) and aug is None and False):
            return orig_store(view, _u, value, aug, st)
        opens = [k for k, s in enumerate(view.slots) if s[0] == "open"]
        if len(opens) != len(lz.ext):
            raise Unsupported(f"store of a {len(lz.ext)}-d lazy array into {view!r}")
        p = [s - 1 for s in syms[: len(opens)]]
        target = view.sub(tuple(p))
        val = lz.fn(tuple(lo + pk for lo, pk in zip(lz.lo, p)))
        if aug is not None:
            # a preceding whole-array store (out[:] = 0) provides the old value
            whole = (view.base, tuple(sp.sympify(i) for i in view.idx), tuple(id(l) for l in it.loops))
            key = (target.base, tuple(sp.sympify(i) for i in target.idx), tuple(id(l) for l in it.loops))
            if key not in it.store_map and whole in it.store_map:
                it.store_map[key] = it.store_map[whole]
        return orig_store(target, None, val, aug, st)

    it.store = store
    return syms

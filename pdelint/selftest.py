"""Mutation self-test of the checkers (thorough tier, and ``python -m pdelint.selftest``).

Each mutant is a single-site edit of a scratch copy of ``<repo>/pde`` (created under
$TMPDIR and removed afterwards).  A ``fire`` mutant breaks the property: the check
must exit 1 and name the expected construct.  A ``silent`` mutant preserves
behaviour (renamed local, reordered commutative terms, hoisted sub-expression...):
the check must exit 0.  Mutants live in ``/verif/mutants/<pid>.json``.
"""

from __future__ import annotations

import json
import os
import shutil
import subprocess
import sys
import tempfile
from concurrent.futures import ThreadPoolExecutor
from pathlib import Path

from .core import VERIF, repo_root

MUTANTS_DIR = VERIF / "mutants"


def load_mutants(pid: str) -> list[dict]:
    p = MUTANTS_DIR / f"{pid}.json"
    if not p.exists():
        return []
    return json.loads(p.read_text())


def apply_mutant(root: Path, m: dict) -> str | None:
    """returns an error string if the mutant cannot be applied"""
    edits = m.get("edits") or [{"file": m["file"], "find": m["find"], "replace": m["replace"], "count": m.get("count", 1)}]
    for e in edits:
        f = root / e["file"]
        if not f.exists():
            return f"file {e['file']} missing"
        s = f.read_text()
        n = s.count(e["find"])
        want = e.get("count", 1)
        if n < 1 or (want != "all" and n != want):
            return f"pattern occurs {n}x (expected {want}) in {e['file']}: {e['find'][:60]!r}"
        s = s.replace(e["find"], e["replace"])
        try:
            compile(s, str(f), "exec")
        except SyntaxError as ex:
            return f"mutant does not compile: {ex}"
        f.write_text(s)
    return None


def run_mutant(pid: str, m: dict, base: Path) -> dict:
    tmp = Path(tempfile.mkdtemp(prefix=f"pdelint-{pid}-"))
    try:
        shutil.copytree(base / "pde", tmp / "pde", ignore=shutil.ignore_patterns("__pycache__"))
        err = apply_mutant(tmp, m)
        if err:
            return {"name": m["name"], "ok": False, "why": f"not applicable: {err}", "stale": True}
        env = dict(os.environ, PDELINT_REPO=str(tmp), PDELINT_NO_EVIDENCE="1", PDELINT_SELFTEST="1", PDELINT_TIER="quick", PDELINT_REPLAY_DIR=str(tmp / "replay"))
        p = subprocess.run(
            [sys.executable, "-m", "pdelint.cli", pid, "--tier", "quick"],
            cwd=str(VERIF),
            env=env,
            capture_output=True,
            text=True,
            timeout=3600,
        )
        out = p.stdout + p.stderr
        expect = m.get("expect", "fire")
        if expect == "fire":
            ok = p.returncode == 1 and "VIOLATION property=" + pid in out
            if ok and m.get("names"):
                ok = any(n in out for n in ([m["names"]] if isinstance(m["names"], str) else m["names"]))
                why = "" if ok else f"fired but did not name {m['names']}"
            else:
                why = "" if ok else f"exit {p.returncode}, expected violation"
        else:
            ok = p.returncode == 0
            why = "" if ok else f"exit {p.returncode} on a behaviour-preserving twin"
        tail = "\n".join(out.strip().splitlines()[-6:]) if not ok else ""
        return {"name": m["name"], "ok": ok, "why": why, "expect": expect, "rc": p.returncode, "tail": tail}
    finally:
        shutil.rmtree(tmp, ignore_errors=True)


def run_selftest(pid: str, jobs: int = 8) -> list[dict]:
    muts = load_mutants(pid)
    base = repo_root()
    with ThreadPoolExecutor(max_workers=jobs) as ex:
        return list(ex.map(lambda m: run_mutant(pid, m, base), muts))


def main(argv=None) -> int:
    argv = argv or sys.argv[1:]
    pids = [a.upper() for a in argv] or sorted(p.stem for p in MUTANTS_DIR.glob("C*.json"))
    bad = 0
    for pid in pids:
        res = run_selftest(pid, jobs=max(1, (os.cpu_count() or 2) // 2))
        for r in res:
            flag = "ok " if r["ok"] else "BAD"
            print(f"{flag} {pid} {r.get('expect', '?'):6s} {r['name']}  {r.get('why', '')}")
            if not r["ok"]:
                bad += 1
                if r.get("tail"):
                    print("      " + r["tail"].replace("\n", "\n      "))
        print(f"{pid}: {sum(r['ok'] for r in res)}/{len(res)} mutants behaved as expected")
    return 1 if bad else 0


if __name__ == "__main__":
    sys.exit(main())

"""E2 -- stencil tables of raw operator kernels.

``extract_kernel`` interprets an operator *factory* (from its syntax tree) on a
symbolic grid model, obtains the kernel closure it returns and interprets that on
symbolic arrays ``arr`` / ``out``.  The result is the table
``out[comp..., cell] = term over arr(comp..., cell+offset)``, with loop facts.
"""

from __future__ import annotations

import ast
from dataclasses import dataclass, field
from typing import Any

import sympy as sp

from .core import AnalysisError
from .fx import (
    ALL,
    Closure,
    Interp,
    LoopInfo,
    Model,
    Opaque,
    Partial,
    Store,
    SymArray,
    UFunc,
    Unsupported,
    Vec,
    make_grid_model,
)
from .index import FuncInfo, Index, call_kwargs, const_value, dotted

THRESHOLD = sp.Symbol("multithreading_threshold", positive=True)

# defaults of the configuration table (read from pde/tools/config.py by read_config_defaults)
CONFIG_KEYS_USED = (
    "operators.conservative_stencil",
    "operators.tensor_symmetry_check",
    "operators.cartesian.laplacian_2d_corner_weight",
)


def num_const(v):
    from .fx import num

    return num(v)


def read_config_defaults(index: Index) -> dict[str, Any]:
    """default values of ``Parameter(name, default, ...)`` entries in tools/config.py"""
    m = index.module("pde/tools/config.py")
    out: dict[str, Any] = {}
    for node in ast.walk(m.tree):
        # config["key"] = Parameter(value=..., ...)
        if (
            isinstance(node, ast.Assign)
            and len(node.targets) == 1
            and isinstance(node.targets[0], ast.Subscript)
            and dotted(node.targets[0].value) == "config"
            and isinstance(node.value, ast.Call)
            and dotted(node.value.func).split(".")[-1] == "Parameter"
        ):
            try:
                key = const_value(node.targets[0].slice)
                kw = call_kwargs(node.value)
                val = kw.get("value", node.value.args[0] if node.value.args else None)
                out[key] = num_const(const_value(val)) if val is not None else None
            except ValueError:
                pass
    for node in ast.walk(m.tree):
        if isinstance(node, ast.Call) and dotted(node.func).split(".")[-1] == "Parameter" and node.args:
            try:
                name = const_value(node.args[0])
            except ValueError:
                continue
            default = None
            if len(node.args) > 1:
                try:
                    default = const_value(node.args[1])
                except ValueError:
                    default = Opaque(ast.unparse(node.args[1]))
            elif "default_value" in call_kwargs(node):
                try:
                    default = const_value(call_kwargs(node)["default_value"])
                except ValueError:
                    default = Opaque("?")
            if isinstance(name, str):
                out[name] = default
    return out


def backend_model(config: dict[str, Any] | None = None) -> Model:
    cfg = dict(config or {})

    def _config_parameter(key, default=None):
        if key == "multithreading_threshold":
            return THRESHOLD
        if key in cfg:
            return cfg[key]
        if key == "use_spectral":
            return False if default is None else default
        return default

    logger = Model("logger", {k: (lambda *a, **kw: None) for k in ("info", "warning", "debug", "error")})
    return Model(
        "backend<numba>",
        {
            "_config_parameter": _config_parameter,
            "_logger": logger,
            "name": "numba",
            "compile_function": lambda f, **k: f,
            "__isinstance__": lambda c: True,
        },
        strict=True,
    )


def std_overrides(index: Index, config: dict[str, Any], backend: Model | None = None) -> dict[str, Any]:
    backend = backend or backend_model()
    cfg_model = Model(
        "config",
        {
            "__getitem__": lambda key: _cfg_get(config, key[0]),
            "__contains__": lambda k: k in config,
        },
    )

    def passthrough(*args, **kwargs):
        if len(args) == 1 and isinstance(args[0], Closure) and not kwargs:
            return args[0]

        def inner(f):
            return f

        return inner

    def passthrough_any(*args, **kwargs):
        """jit(...) used as a function: returns its argument / a decorator returning it"""
        if len(args) >= 1 and (isinstance(args[0], Closure) or callable(args[0])) and not isinstance(args[0], Model):
            return args[0]
        return lambda f: f

    return {
        "get_backend": lambda *a, **k: backend,
        "pde.get_backend": lambda *a, **k: backend,
        "pde.backends.get_backend": lambda *a, **k: backend,
        "pde.backends.registry.get_backend": lambda *a, **k: backend,
        "config": cfg_model,
        "pde.config": cfg_model,
        "pde.tools.config.config": cfg_model,
        "fill_in_docstring": passthrough,
        "pde.tools.docstrings.fill_in_docstring": passthrough,
        "module_available": lambda name: False,
        "register_jitable": passthrough,
        "jit": passthrough_any,
        "pde.backends.numba.utils.jit": passthrough_any,
    }


def _cfg_get(config, key):
    if key not in config:
        raise AnalysisError(f"configuration key {key!r} has no default in pde/tools/config.py")
    return config[key]


@dataclass
class Kernel:
    factory: str
    options: dict
    grid: Model
    closure: Closure
    interp: Interp
    out: dict[tuple, Any] = field(default_factory=dict)  # idx tuple -> term
    stores: list[Store] = field(default_factory=list)
    loops: list[LoopInfo] = field(default_factory=list)
    parallel: Any = None
    asserts: list = field(default_factory=list)
    arr_stores: dict[tuple, Any] = field(default_factory=dict)


def run_factory(index: Index, fi: FuncInfo, grid: Model, options: dict, config: dict, *, backend: Model | None = None, pass_backend: bool = True):
    backend = backend or backend_model()
    it = Interp(index, overrides=std_overrides(index, config, backend))
    fac = it.make_closure(fi, it.module_env(fi.module))
    kw = dict(options)
    if pass_backend:
        kw.setdefault("backend", backend)
    closure = it.call(fac, (grid,), kw)
    return it, closure


def apply_kernel(it: Interp, closure, grid: Model, *, factory: str = "", options: dict | None = None) -> Kernel:
    if isinstance(closure, Partial):
        raise AnalysisError("partial kernel")
    if not isinstance(closure, Closure):
        raise Unsupported(f"factory {factory} did not return a kernel closure but {closure!r}")
    arr = SymArray("arr", (), it)
    out = SymArray("out", (), it)
    n0 = len(it.stores)
    l0 = len(it.all_loops)
    it.call(closure, (arr, out), {})
    k = Kernel(factory=factory, options=dict(options or {}), grid=grid, closure=closure, interp=it)
    k.out = it.final_stores("out")
    k.arr_stores = it.final_stores("arr")
    k.stores = it.stores[n0:]
    k.loops = it.all_loops[l0:]
    k.asserts = list(it.asserts)
    for name, args, kwargs in closure.decorators:
        if name in ("jit", "njit") and "parallel" in kwargs:
            k.parallel = kwargs["parallel"]
    return k


def extract_kernel(index: Index, fi: FuncInfo, grid: Model, options: dict, config: dict) -> Kernel:
    it, closure = run_factory(index, fi, grid, options, config)
    return apply_kernel(it, closure, grid, factory=fi.ref, options=options)


# ----------------------------------------------------------------------------
# registry
# ----------------------------------------------------------------------------
@dataclass
class Registration:
    backend: str
    grid_cls: str
    name: str
    rank_in: int
    rank_out: int
    factory: FuncInfo


def registrations(index: Index, backend_cls: str, subdir: str) -> list[Registration]:
    """all ``@<Backend>.register_operator(Grid, "name", rank_in=, rank_out=)`` decorators"""
    out = []
    for m in index.modules.values():
        if not m.rel.startswith(subdir):
            continue
        for f in m.functions.values():
            for d in f.node.decorator_list:
                if isinstance(d, ast.Call) and dotted(d.func) == f"{backend_cls}.register_operator":
                    try:
                        gcls = dotted(d.args[0])
                        name = const_value(d.args[1])
                        kw = call_kwargs(d)
                        rin = const_value(kw["rank_in"]) if "rank_in" in kw else 0
                        rout = const_value(kw["rank_out"]) if "rank_out" in kw else 0
                    except (ValueError, IndexError) as e:
                        raise AnalysisError(f"registration decorator of {f.ref} outside the grammar: {e}") from e
                    out.append(Registration(backend_cls, gcls, name, rin, rout, f))
    return out


# ----------------------------------------------------------------------------
# stencil normal form
# ----------------------------------------------------------------------------
def cells_in(expr, base: str = "arr") -> set:
    return {a for a in sp.sympify(expr).atoms(sp.core.function.AppliedUndef) if a.func.__name__ == base}


def split_index(idx: tuple, loop_syms: list) -> tuple[tuple, tuple]:
    """split an index tuple into (component part, spatial part): the spatial part is the
    trailing ``len(loop_syms)`` entries"""
    n = len(loop_syms)
    if len(idx) < n:
        raise Unsupported(f"index {idx} has fewer entries than loop axes {loop_syms}")
    comp, spat = idx[: len(idx) - n], idx[len(idx) - n :]
    return tuple(comp), tuple(spat)

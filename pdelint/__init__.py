"""pdelint -- repository-specific static analysis of py-pde (properties C01..C20).

Nothing in this package imports or executes code from the analysed repository.
All verdicts come from the syntax trees of the files under ``$PDELINT_REPO``
(default ``/repo``), see /verif/DESIGN.md.
"""

__all__ = ["core", "index", "fx"]

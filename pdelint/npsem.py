"""npsem -- abstract interpretation of numpy tensor algebra on *small concrete shapes with
symbolic entries*.

Arrays are ``numpy`` object arrays whose entries are sympy terms (one distinct symbol per
input entry).  The interpreter walks the syntax tree of a repository function itself (the
repository is never imported or executed); numpy is used only as the carrier of the
*documented* indexing / broadcasting semantics on the interpreter's own object arrays,
``einsum`` is implemented here from its specification.  The result of interpreting e.g.
``np.einsum("i...,j...->ij...", a, b, out=out.data)`` is an array of sympy terms that is
compared entry by entry with the defining formula (``out[i,j] = a[i]*b[j]``).

Everything outside the grammar raises :class:`Unsupported` (an analysis error, never a
verdict).
"""

from __future__ import annotations

import ast
import itertools
from typing import Any, Callable

import numpy as np
import sympy as sp

from .core import AnalysisError


class Unsupported(AnalysisError):
    pass


class Raised(Exception):
    """the interpreted code raises on this path"""

    def __init__(self, what: str):
        super().__init__(what)
        self.what = what


class _Return(Exception):
    def __init__(self, value):
        self.value = value


class _Break(Exception):
    pass


class _Continue(Exception):
    pass


CJ = sp.Function("cj")  # complex conjugation marker (kept uninterpreted on purpose)


def sym_array(name: str, shape: tuple[int, ...], **assumptions) -> np.ndarray:
    a = np.empty(shape, dtype=object)
    for idx in itertools.product(*[range(s) for s in shape]):
        a[idx] = sp.Symbol(name + "".join(f"_{k}" for k in idx), **assumptions)
    return a


def uninit_array(name: str, shape: tuple[int, ...]) -> np.ndarray:
    return sym_array("UNINIT_" + name, shape)


def has_uninit(a) -> bool:
    for e in np.asarray(a, dtype=object).ravel():
        if any(str(s).startswith("UNINIT_") for s in sp.sympify(e).free_symbols):
            return True
    return False


def conj(a):
    if isinstance(a, np.ndarray):
        out = np.empty(a.shape, dtype=object)
        for idx in np.ndindex(a.shape):
            out[idx] = _cj(a[idx])
        return out
    return _cj(a)


def _cj(e):
    e = sp.sympify(e)
    if e.is_number:
        return sp.conjugate(e)
    if isinstance(e, sp.Symbol):
        return CJ(e)
    if e.func is CJ:
        return e.args[0]
    if isinstance(e, (sp.Add, sp.Mul, sp.Pow)):
        return e.func(*[_cj(x) for x in e.args])
    return CJ(e)


def einsum(spec: str, *ops, out=None):
    """numpy.einsum (explicit or implicit output, one ellipsis per operand) on object arrays"""
    spec = spec.replace(" ", "")
    ins, arrow, outs = spec.partition("->")
    terms = ins.split(",")
    if len(terms) != len(ops):
        raise Raised(f"einsum: {len(terms)} subscripts for {len(ops)} operands")
    ops = [np.asarray(o, dtype=object) for o in ops]
    # expand the ellipsis of every operand into fresh upper-case labels, right aligned
    ell_n = 0
    for t, o in zip(terms, ops):
        named = len(t.replace("...", ""))
        if "..." in t:
            ell_n = max(ell_n, o.ndim - named)
        elif o.ndim != named:
            raise Raised(f"einsum: operand with {o.ndim} axes does not match subscripts '{t}'")
        if o.ndim < named:
            raise Raised(f"einsum: operand with {o.ndim} axes does not match subscripts '{t}'")
    ell = [f"E{k}" for k in range(ell_n)]

    def labels(t, nd):
        if "..." in t:
            pre, post = t.split("...")
            k = nd - len(pre) - len(post)
            return list(pre) + ell[ell_n - k :] + list(post)
        return list(t)

    lab = [labels(t, o.ndim) for t, o in zip(terms, ops)]
    if arrow:
        olab = labels(outs, len(outs.replace("...", "")) + ell_n) if "..." in outs else list(outs)
        if "..." not in outs and ell_n and any("..." in t for t in terms):
            # numpy: an ellipsis on the input side that is absent from the output is an error unless it is empty
            raise Raised("einsum: output has no ellipsis but operands have broadcast dimensions")
    else:
        cnt: dict[str, int] = {}
        for l in lab:
            for x in l:
                if not x.startswith("E"):
                    cnt[x] = cnt.get(x, 0) + 1
        olab = ell + sorted(x for x, c in cnt.items() if c == 1)
    size: dict[str, int] = {}
    for l, o in zip(lab, ops):
        for x, s in zip(l, o.shape):
            if x in size and size[x] != s:
                if x.startswith("E") and 1 in (size[x], s):
                    size[x] = max(size[x], s)
                    continue
                raise Raised(f"einsum: size mismatch for label {x}: {size[x]} vs {s}")
            size.setdefault(x, s)
    for x in olab:
        if x not in size:
            raise Raised(f"einsum: output label {x} does not occur in the operands")
    summed = [x for x in size if x not in olab]
    res = np.empty(tuple(size[x] for x in olab), dtype=object)
    for oidx in itertools.product(*[range(size[x]) for x in olab]):
        asg = dict(zip(olab, oidx))
        tot = sp.Integer(0)
        for sidx in itertools.product(*[range(size[x]) for x in summed]):
            asg.update(zip(summed, sidx))
            term = sp.Integer(1)
            for l, o in zip(lab, ops):
                term = term * o[tuple(0 if o.shape[k] == 1 and size[x] != 1 else asg[x] for k, x in enumerate(l))]
            tot = tot + term
        res[oidx] = sp.expand(tot)
    if out is not None:
        if out.shape != res.shape:
            raise Raised(f"einsum: out has shape {out.shape}, result {res.shape}")
        out[...] = res
        return out
    return res if res.shape else res[()]


def _ufunc(f):
    def g(a, b, out=None, **kw):
        try:
            r = f(np.asarray(a, dtype=object) if isinstance(a, np.ndarray) else a, np.asarray(b, dtype=object) if isinstance(b, np.ndarray) else b)
        except ValueError as e:
            raise Raised(f"broadcast error: {e}") from None
        if out is not None:
            if np.shape(r) != out.shape:
                raise Raised(f"ufunc result of shape {np.shape(r)} does not fit out of shape {out.shape}")
            out[...] = r
            return out
        return r

    return g


def _trace(a, offset=0, axis1=0, axis2=1, **kw):
    if offset != 0:
        raise Unsupported("np.trace with offset")
    a = np.asarray(a, dtype=object)
    n = min(a.shape[axis1], a.shape[axis2])
    tot = None
    for k in range(n):
        idx: list[Any] = [slice(None)] * a.ndim
        idx[axis1] = k
        idx[axis2] = k
        part = a[tuple(idx)]
        tot = part if tot is None else tot + part
    return tot


def _sum(a, axis=None, **kw):
    a = np.asarray(a, dtype=object)
    if axis is None:
        return sum(a.ravel(), sp.Integer(0))
    return np.add.reduce(a, axis=axis)


def _empty(shape, dtype=None, **kw):
    _empty.n += 1
    shape = (shape,) if isinstance(shape, int) else tuple(shape)
    return uninit_array(f"a{_empty.n}", shape)


_empty.n = 0


def _zeros(shape, dtype=None, **kw):
    shape = (shape,) if isinstance(shape, int) else tuple(shape)
    a = np.empty(shape, dtype=object)
    a[...] = sp.Integer(0)
    return a


def _tensordot(a, b, axes=2):
    a, b = np.asarray(a, dtype=object), np.asarray(b, dtype=object)
    if isinstance(axes, int):
        ax_a, ax_b = list(range(a.ndim - axes, a.ndim)), list(range(axes))
    else:
        ax_a, ax_b = axes
        ax_a = [ax_a] if isinstance(ax_a, int) else list(ax_a)
        ax_b = [ax_b] if isinstance(ax_b, int) else list(ax_b)
    la = [chr(97 + k) for k in range(a.ndim)]
    lb = [chr(110 + k) for k in range(b.ndim)]
    for x, y in zip(ax_a, ax_b):
        lb[y] = la[x]
    out = [x for k, x in enumerate(la) if k not in [v % a.ndim for v in ax_a]] + [x for k, x in enumerate(lb) if k not in [v % b.ndim for v in ax_b]]
    return einsum("".join(la) + "," + "".join(lb) + "->" + "".join(out), a, b)


def _matmul(a, b):
    a, b = np.asarray(a, dtype=object), np.asarray(b, dtype=object)
    if a.ndim == 1 and b.ndim == 1:
        return einsum("i,i->", a, b)
    if a.ndim == 1:
        return einsum("j,...jk->...k", a, b)
    if b.ndim == 1:
        return einsum("...ij,j->...i", a, b)
    return einsum("...ij,...jk->...ik", a, b)


def _elementwise(f, a):
    if isinstance(a, np.ndarray):
        out = np.empty(a.shape, dtype=object)
        for idx in np.ndindex(a.shape):
            out[idx] = f(a[idx])
        return out if out.shape else out[()]
    return f(a)


def _prod(a):
    out = sp.Integer(1)
    for x in np.asarray(a, dtype=object).ravel():
        out = out * x
    return out


def _as_bool(c):
    a = np.asarray(c, dtype=object)
    out = np.empty(a.shape, dtype=bool)
    for idx in np.ndindex(a.shape):
        v = a[idx]
        if not isinstance(v, (bool, np.bool_)):
            raise Unsupported(f"np.where on a condition that is not a concrete boolean ({v!r})")
        out[idx] = bool(v)
    return out


def _np_array(a):
    """np.array of a (nested) sequence of object arrays / scalars: all parts must have one shape"""
    if isinstance(a, (list, tuple)):
        parts = [_np_array(x) for x in a]
        shapes = {np.shape(p) for p in parts}
        if len(shapes) > 1:
            raise Raised(f"ValueError: setting an array element with a sequence (inhomogeneous shapes {sorted(shapes)})")
        out = np.empty((len(parts),) + (shapes.pop() if shapes else ()), dtype=object)
        for k, p_ in enumerate(parts):
            out[k] = p_[()] if isinstance(p_, np.ndarray) and p_.ndim == 0 else p_
        return out
    return a if isinstance(a, np.ndarray) else np.asarray(a, dtype=object)


NP_FUNCS: dict[str, Callable] = {
    "einsum": einsum,
    "multiply": _ufunc(lambda a, b: a * b),
    "add": _ufunc(lambda a, b: a + b),
    "subtract": _ufunc(lambda a, b: a - b),
    "divide": _ufunc(lambda a, b: a / b),
    "true_divide": _ufunc(lambda a, b: a / b),
    "swapaxes": lambda a, i, j: np.swapaxes(a, i, j),
    "transpose": lambda a, axes=None: np.transpose(a, axes),
    "moveaxis": lambda a, s, d: np.moveaxis(a, s, d),
    "trace": _trace,
    "sum": _sum,
    "conj": conj,
    "conjugate": conj,
    "empty": _empty,
    "zeros": _zeros,
    "empty_like": lambda a, **kw: _empty(np.shape(a)),
    "zeros_like": lambda a, **kw: _zeros(np.shape(a)),
    "asarray": lambda a, *dt, **kw: a if isinstance(a, np.ndarray) else _np_array(a),
    "asanyarray": lambda a, *dt, **kw: a if isinstance(a, np.ndarray) else _np_array(a),
    "array": lambda a, *dt, **kw: _np_array(a).copy() if isinstance(a, np.ndarray) else _np_array(a),
    "tensordot": _tensordot,
    "matmul": _matmul,
    "dot": lambda a, b: _matmul(a, b) if np.ndim(b) <= 1 or np.ndim(a) <= 1 else einsum("...j,jk->...k", a, b) if np.ndim(b) == 2 else (_ for _ in ()).throw(Unsupported("np.dot with nd second operand")),
    "expand_dims": lambda a, axis: np.expand_dims(a, axis),
    "stack": lambda seq, axis=0: np.stack([np.asarray(s, dtype=object) for s in seq], axis=axis),
    "shape": np.shape,
    "ndim": np.ndim,
    "broadcast_to": lambda a, s: np.broadcast_to(a, s),
    "broadcast_arrays": lambda *a: [np.asarray(x, dtype=object) for x in np.broadcast_arrays(*[np.asarray(x, dtype=object) for x in a])],
    "reshape": lambda a, shape: np.reshape(np.asarray(a, dtype=object), shape),
    "ndindex": lambda *shape: list(np.ndindex(*shape)),
    "ceil": lambda a: _elementwise(sp.ceiling, a),
    "floor": lambda a: _elementwise(sp.floor, a),
    "sqrt": lambda a: _elementwise(sp.sqrt, a),
    "abs": lambda a: _elementwise(sp.Abs, a),
    "absolute": lambda a: _elementwise(sp.Abs, a),
    "where": lambda c, a, b: np.where(np.asarray(_as_bool(c)), np.asarray(a, dtype=object), np.asarray(b, dtype=object)),
    "atleast_1d": lambda a: np.atleast_1d(np.asarray(a, dtype=object)),
    "meshgrid": lambda *xs, indexing="xy", **kw: [np.asarray(g, dtype=object) for g in np.meshgrid(*[np.asarray(x, dtype=object) for x in xs], indexing=indexing, **kw)],
    "outer": lambda a, b: np.multiply.outer(np.asarray(a, dtype=object).ravel(), np.asarray(b, dtype=object).ravel()),
    "prod": lambda a, **kw: _prod(a),
}
NP_CONSTS = {"newaxis": None, "pi": sp.pi, "double": "float64", "float64": "float64", "bool_": "bool", "inf": sp.oo}  # np.ndarray is added below (needs KindRef)


class NpModule:
    pass


NP = NpModule()


class Stub:
    """plain object with attributes; unknown attributes are an analysis error"""

    def __init__(self, _name: str, **attrs):
        self.__dict__["_name"] = _name
        self.__dict__["_attrs"] = dict(attrs)

    def __repr__(self):
        return f"<stub {self._name}>"


class Opaque:
    """value the analysis does not model; calls and attributes give further opaque values;
    using it in arithmetic, as an index or in a branch is an analysis error"""

    def __init__(self, name):
        self.name = name

    def __repr__(self):
        return f"<opaque {self.name}>"


class KindRef:
    """reference to a class known only by name (for isinstance and construction)"""

    def __init__(self, name: str, supers: tuple[str, ...] = (), make: Callable | None = None):
        self.name, self.supers, self.make = name, supers, make

    def __repr__(self):
        return f"<kind {self.name}>"


NP_CONSTS["ndarray"] = KindRef("ndarray")

_GLOBAL_STREAM = [0]


def _global_random(*args, size=None, **kw):
    """numpy's *global* generator: fresh symbols of a stream of its own (never equal to numbers of a generator object)"""
    if size is None and args and isinstance(args[-1], (tuple, list, int)) and not kw.get("_scalar"):
        size = args[-1]
    shp = () if size is None else (tuple(size) if isinstance(size, (tuple, list)) else (int(size),))
    n = int(np.prod(shp)) if shp else 1
    out = np.empty(n, dtype=object)
    for q in range(n):
        out[q] = sp.Symbol(f"global_rng_{_GLOBAL_STREAM[0] + q}")
    _GLOBAL_STREAM[0] += n
    return out.reshape(shp) if shp else out[0]




def _fresh_generator(*seed, **kw):
    """np.random.default_rng(...): a generator object of its own (a stream unrelated to any generator passed in)"""
    return Stub("generator", standard_normal=_global_random, normal=_global_random, random=_global_random)


NP_CONSTS["random"] = Stub("np.random", standard_normal=_global_random, normal=_global_random, random=_global_random, randn=lambda *shape: _global_random(size=shape), default_rng=_fresh_generator)


class Closure:
    def __init__(self, node, env: "Scope", interp: "NpSem"):
        self.node, self.env, self.interp = node, env, interp

    def __call__(self, *args, **kwargs):
        return self.interp.call_closure(self, args, kwargs)


class Scope:
    def __init__(self, vars: dict | None = None, parent: "Scope | None" = None):
        self.vars = dict(vars or {})
        self.parent = parent

    def get(self, name):
        s: Scope | None = self
        while s is not None:
            if name in s.vars:
                return s.vars[name]
            s = s.parent
        raise KeyError(name)

    def set(self, name, value):
        if name in getattr(self, "nonlocals", ()):
            s = self.parent
            while s is not None:
                if name in s.vars:
                    s.vars[name] = value
                    return
                s = s.parent
            raise KeyError(name)
        self.vars[name] = value


class NpSem:
    def __init__(self, *, decide: Callable[[str], bool | None] | None = None, where: str = ""):
        self.decide = decide
        self.where = where
        self.trace: list[str] = []

    # ------------------------------------------------------------------ helpers
    def fail(self, node, msg):
        raise Unsupported(f"{self.where}: line {getattr(node, 'lineno', '?')}: {msg}: `{ast.unparse(node)[:120]}`")

    def truth(self, node, scope) -> bool:
        if self.decide is not None:
            d = self.decide(ast.unparse(node))
            if d is not None:
                return bool(d)
        v = self.eval(node, scope)
        if isinstance(v, (bool, np.bool_)):
            return bool(v)
        if v is None or isinstance(v, (int, str, tuple, list, dict, set)):
            return bool(v)
        if isinstance(v, sp.Basic) and v.is_number:
            return bool(v)
        if isinstance(v, (Stub, KindRef, Closure)):
            return True
        self.fail(node, f"branch on a value the analysis cannot decide ({v!r})")
        return False

    # ------------------------------------------------------------------ functions
    def call_closure(self, clo: Closure, args, kwargs):
        node = clo.node
        scope = Scope(parent=clo.env)
        a = node.args
        params = [p.arg for p in a.posonlyargs + a.args]
        defaults = dict(zip(params[len(params) - len(a.defaults) :], a.defaults))
        if len(args) > len(params) and not a.vararg:
            raise Raised(f"TypeError: too many positional arguments for {getattr(node, 'name', 'lambda')}")
        for p, v in zip(params, args):
            scope.set(p, v)
        if a.vararg:
            scope.set(a.vararg.arg, tuple(args[len(params) :]))
        for p in params[len(args) :]:
            if p in kwargs:
                scope.set(p, kwargs.pop(p))
            elif p in defaults:
                scope.set(p, self.eval(defaults[p], clo.env))
            else:
                raise Raised(f"TypeError: missing argument {p}")
        for p, d in zip(a.kwonlyargs, a.kw_defaults):
            if p.arg in kwargs:
                scope.set(p.arg, kwargs.pop(p.arg))
            elif d is not None:
                scope.set(p.arg, self.eval(d, clo.env))
            else:
                raise Raised(f"TypeError: missing keyword argument {p.arg}")
        if kwargs:
            if a.kwarg:
                scope.set(a.kwarg.arg, dict(kwargs))
            else:
                raise Raised(f"TypeError: unexpected keyword arguments {sorted(kwargs)}")
        if isinstance(node, ast.Lambda):
            return self.eval(node.body, scope)
        try:
            self.exec_block(node.body, scope)
        except _Return as r:
            return r.value
        return None

    def run_function(self, node: ast.FunctionDef, scope_vars: dict, args=(), kwargs=None, outer: Scope | None = None):
        clo = Closure(node, Scope(scope_vars, outer), self)
        return clo(*args, **(kwargs or {}))

    # ------------------------------------------------------------------ statements
    def exec_block(self, stmts, scope):
        for s in stmts:
            self.exec(s, scope)

    def exec(self, s, scope):
        if isinstance(s, ast.Expr):
            if isinstance(s.value, ast.Constant):
                return
            self.eval(s.value, scope)
        elif isinstance(s, ast.Assign):
            v = self.eval(s.value, scope)
            for t in s.targets:
                self.assign(t, v, scope)
        elif isinstance(s, ast.AnnAssign):
            if s.value is not None:
                self.assign(s.target, self.eval(s.value, scope), scope)
        elif isinstance(s, ast.AugAssign):
            cur = self.eval(s.target, scope)
            v = self.eval(s.value, scope)
            new = self.binop(s.op, cur, v, s)
            if isinstance(s.target, ast.Subscript) or (isinstance(cur, np.ndarray) and isinstance(s.target, ast.Name)):
                # in-place update of the array object
                if isinstance(s.target, ast.Name):
                    cur[...] = new
                else:
                    self.assign(s.target, new, scope)
            else:
                self.assign(s.target, new, scope)
        elif isinstance(s, ast.If):
            self.exec_block(s.body if self.truth(s.test, scope) else s.orelse, scope)
        elif isinstance(s, ast.For):
            it = self.eval(s.iter, scope)
            if isinstance(it, np.ndarray):
                it = list(it)
            if isinstance(it, (dict, str, set)):
                it = list(it)
            if isinstance(it, Stub) and "__iter__" in it._attrs:
                it = list(it._attrs["__iter__"]())
            if not isinstance(it, (range, list, tuple)):
                self.fail(s, f"loop over a value of unknown extent ({it!r})")
            broke = False
            for v in it:
                self.assign(s.target, v, scope)
                try:
                    self.exec_block(s.body, scope)
                except _Break:
                    broke = True
                    break
                except _Continue:
                    continue
            if not broke:
                self.exec_block(s.orelse, scope)
        elif isinstance(s, ast.While):
            n_iter = 0
            broke = False
            while self.truth(s.test, scope):
                n_iter += 1
                if n_iter > 10000:
                    raise Raised("loop does not terminate within 10000 iterations")
                try:
                    self.exec_block(s.body, scope)
                except _Break:
                    broke = True
                    break
                except _Continue:
                    continue
            if not broke:
                self.exec_block(s.orelse, scope)
        elif isinstance(s, ast.Break):
            raise _Break()
        elif isinstance(s, ast.Continue):
            raise _Continue()
        elif isinstance(s, ast.Return):
            raise _Return(self.eval(s.value, scope) if s.value is not None else None)
        elif isinstance(s, ast.Raise):
            nm = ""
            if s.exc is not None:
                c = s.exc.func if isinstance(s.exc, ast.Call) else s.exc
                nm = (_dotted(c) or "").split(".")[-1]
            raise Raised(f"{nm}: {ast.unparse(s)}")
        elif isinstance(s, (ast.Nonlocal, ast.Global)):
            # assignments to these names go to the enclosing scope that holds them
            scope.nonlocals = set(getattr(scope, "nonlocals", ())) | set(s.names)
        elif isinstance(s, (ast.Import, ast.ImportFrom, ast.Pass)):
            if isinstance(s, ast.ImportFrom):
                for al in s.names:
                    nm = al.asname or al.name
                    try:
                        scope.get(nm)
                    except KeyError:
                        scope.set(nm, Opaque(nm))
        elif isinstance(s, ast.Assert):
            if not self.truth(s.test, scope):
                raise Raised("AssertionError: " + ast.unparse(s.test))
        elif isinstance(s, ast.FunctionDef):
            scope.set(s.name, Closure(s, scope, self))
        elif isinstance(s, ast.With):
            for item in s.items:
                v = self.eval(item.context_expr, scope)
                if item.optional_vars is not None:
                    self.assign(item.optional_vars, v, scope)
            self.exec_block(s.body, scope)
        elif isinstance(s, ast.Try):
            try:
                self.exec_block(s.body, scope)
            except Raised as e:
                handled = False
                for h in s.handlers:
                    names = [] if h.type is None else [_dotted(x) or ast.unparse(x) for x in (h.type.elts if isinstance(h.type, ast.Tuple) else [h.type])]
                    if h.type is None or any(e.what.startswith(n.split(".")[-1]) for n in names) or "Exception" in names:
                        if h.name:
                            scope.set(h.name, Opaque("exception"))
                        self.exec_block(h.body, scope)
                        handled = True
                        break
                if not handled:
                    self.exec_block(s.finalbody, scope)
                    raise
            else:
                self.exec_block(s.orelse, scope)
            self.exec_block(s.finalbody, scope)
        else:
            self.fail(s, f"statement {type(s).__name__} not in the grammar")

    def assign(self, target, value, scope):
        if isinstance(target, ast.Name):
            scope.set(target.id, value)
        elif isinstance(target, (ast.Tuple, ast.List)):
            vals = list(value)
            if len(vals) != len(target.elts):
                raise Raised("ValueError: unpacking length mismatch")
            for t, v in zip(target.elts, vals):
                self.assign(t, v, scope)
        elif isinstance(target, ast.Subscript):
            base = self.eval(target.value, scope)
            key = self.eval_index(target.slice, scope)
            if not isinstance(base, np.ndarray):
                if isinstance(base, (dict, list)):
                    base[key] = value
                    return
                self.fail(target, f"store into {base!r}")
            try:
                base[key] = value
            except (ValueError, IndexError) as e:
                raise Raised(f"{type(e).__name__}: {e}") from None
        elif isinstance(target, ast.Attribute):
            obj = self.eval(target.value, scope)
            if isinstance(obj, Stub):
                setter = obj._attrs.get("__set_" + target.attr)
                if setter is not None:
                    setter(value)
                else:
                    obj._attrs[target.attr] = value
            elif isinstance(obj, Opaque):
                pass
            else:
                self.fail(target, f"attribute store on {obj!r}")
        else:
            self.fail(target, "assignment target not in the grammar")

    # ------------------------------------------------------------------ expressions
    def eval_index(self, node, scope):
        if isinstance(node, ast.Tuple):
            return tuple(self.eval_index(e, scope) for e in node.elts)
        if isinstance(node, ast.Slice):
            return slice(*(self.eval(x, scope) if x is not None else None for x in (node.lower, node.upper, node.step)))
        v = self.eval(node, scope)
        if isinstance(v, sp.Integer):
            v = int(v)
        if isinstance(v, Opaque):
            self.fail(node, "opaque value used as an index")
        return v

    def binop(self, op, l, r, node):
        for v in (l, r):
            if isinstance(v, (Opaque, Stub)):
                self.fail(node, f"arithmetic on {v!r}")
        try:
            if isinstance(op, ast.Add):
                return l + r
            if isinstance(op, ast.Sub):
                return l - r
            if isinstance(op, ast.Mult):
                return l * r
            if isinstance(op, ast.Div):
                if isinstance(l, int) and isinstance(r, int):
                    return sp.Rational(l, r)
                return l / r
            if isinstance(op, ast.FloorDiv) and isinstance(l, int) and isinstance(r, int):
                return l // r
            if isinstance(op, ast.Mod):
                if isinstance(l, str):
                    self.fail(node, "string formatting with %")
                return l % r  # ints: python; sympy terms / object arrays: Mod (python/numpy sign convention)
            if isinstance(op, ast.Pow):
                return l**r
            if isinstance(op, ast.MatMult):
                return _matmul(l, r)
        except ValueError as e:
            raise Raised(f"broadcast error: {e}") from None
        self.fail(node, f"operator {type(op).__name__}")

    def eval(self, node, scope):
        m = getattr(self, "e_" + type(node).__name__, None)
        if m is None:
            self.fail(node, f"expression {type(node).__name__} not in the grammar")
        return m(node, scope)

    def e_Constant(self, node, scope):
        v = node.value
        if isinstance(v, float):
            return sp.nsimplify(v, rational=True)
        return v

    def e_Name(self, node, scope):
        try:
            return scope.get(node.id)
        except KeyError:
            pass
        if node.id in ("range", "len", "isinstance", "tuple", "list", "int", "float", "abs", "min", "max", "sum", "enumerate", "zip", "slice", "str", "any", "all", "sorted", "reversed", "bool", "round", "dict", "set", "getattr", "hasattr"):
            return node.id
        if node.id in ("None", "True", "False"):
            return {"None": None, "True": True, "False": False}[node.id]
        if node.id == "Ellipsis":
            return Ellipsis
        import builtins

        if hasattr(builtins, node.id):
            self.fail(node, f"builtin {node.id} is not modelled")
        # every scope (parameters, locals executed so far, enclosing functions, module
        # globals) has been seeded, so an unbound name is a NameError of the program
        raise Raised(f"NameError: name '{node.id}' is not defined on this path (line {node.lineno})")

    def e_Tuple(self, node, scope):
        out = []
        for e in node.elts:
            if isinstance(e, ast.Starred):
                out.extend(self.eval(e.value, scope))
            else:
                out.append(self.eval(e, scope))
        return tuple(out)

    def e_List(self, node, scope):
        return list(self.e_Tuple(node, scope))

    def e_UnaryOp(self, node, scope):
        v = self.eval(node.operand, scope)
        if isinstance(node.op, ast.USub):
            return -v
        if isinstance(node.op, ast.UAdd):
            return v
        if isinstance(node.op, ast.Not):
            return not self.truth(node.operand, scope)
        self.fail(node, "unary operator")

    def e_BinOp(self, node, scope):
        return self.binop(node.op, self.eval(node.left, scope), self.eval(node.right, scope), node)

    def e_BoolOp(self, node, scope):
        if isinstance(node.op, ast.And):
            return all(self.truth(v, scope) for v in node.values)
        return any(self.truth(v, scope) for v in node.values)

    def e_IfExp(self, node, scope):
        return self.eval(node.body if self.truth(node.test, scope) else node.orelse, scope)

    def e_Compare(self, node, scope):
        l = self.eval(node.left, scope)
        res = True
        for op, rn in zip(node.ops, node.comparators):
            r = self.eval(rn, scope)
            if isinstance(op, ast.Is):
                ok = l is r
            elif isinstance(op, ast.IsNot):
                ok = l is not r
            else:
                if isinstance(op, (ast.In, ast.NotIn)) and isinstance(r, (dict, list, tuple, set, str)) and not isinstance(l, (Opaque, np.ndarray)):
                    ok = (l in r) if isinstance(op, ast.In) else (l not in r)
                    res = res and bool(ok)
                    l = r
                    continue
                if any(isinstance(v, (Opaque, Stub, np.ndarray)) for v in (l, r)):
                    self.fail(node, "comparison of values the analysis cannot decide")
                if isinstance(op, ast.Eq):
                    ok = l == r
                elif isinstance(op, ast.NotEq):
                    ok = l != r
                elif isinstance(op, ast.Lt):
                    ok = l < r
                elif isinstance(op, ast.LtE):
                    ok = l <= r
                elif isinstance(op, ast.Gt):
                    ok = l > r
                elif isinstance(op, ast.GtE):
                    ok = l >= r
                elif isinstance(op, ast.In):
                    ok = l in r
                elif isinstance(op, ast.NotIn):
                    ok = l not in r
                else:
                    self.fail(node, "comparison operator")
            res = res and bool(ok)
            l = r
        return res

    def e_Ellipsis(self, node, scope):
        return Ellipsis

    def e_Subscript(self, node, scope):
        base = self.eval(node.value, scope)
        key = self.eval_index(node.slice, scope)
        if isinstance(base, np.ndarray):
            try:
                return base[key]
            except (IndexError, ValueError) as e:
                raise Raised(f"{type(e).__name__}: {e}") from None
        if isinstance(base, (tuple, list, dict, str, range)):
            try:
                return base[key]
            except (IndexError, KeyError, TypeError) as e:
                raise Raised(f"{type(e).__name__}: {e}") from None
        if isinstance(base, Stub) and "__getitem__" in base._attrs:
            return base._attrs["__getitem__"](key)
        self.fail(node, f"subscript of {base!r}")

    def e_Attribute(self, node, scope):
        # dotted names bound as a whole (e.g. "self.data")
        d = _dotted(node)
        if d:
            try:
                return scope.get(d)
            except KeyError:
                pass
        obj = self.eval(node.value, scope)
        a = node.attr
        if obj is NP:
            if a in NP_CONSTS:
                return NP_CONSTS[a]
            if a in NP_FUNCS:
                return NP_FUNCS[a]
            self.fail(node, f"numpy function np.{a} is not modelled")
        if isinstance(obj, Stub):
            if a in obj._attrs:
                v = obj._attrs[a]
                return v() if isinstance(v, _Prop) else v
            self.fail(node, f"{obj!r} has no modelled attribute {a}")
        if isinstance(obj, Opaque):
            return Opaque(f"{obj.name}.{a}")
        if isinstance(obj, np.ndarray):
            if a in ("ndim", "shape", "size"):
                return getattr(obj, a)
            if a == "T":
                return obj.T
            if a in ("conj", "conjugate"):
                return lambda: conj(obj)
            if a == "copy":
                return lambda **kw: obj.copy()
            if a == "swapaxes":
                return lambda i, j: obj.swapaxes(i, j)
            if a == "reshape":
                return lambda *shape, **kw: obj.reshape(*shape)
            if a in ("ravel", "flatten"):
                return lambda **kw: obj.ravel()
            if a == "astype":
                return lambda *dt, **kw: obj
            if a == "transpose":
                return lambda *ax: obj.transpose(*ax)
            if a == "sum":
                return lambda axis=None, **kw: _sum(obj, axis=axis)
            if a == "trace":
                return lambda **kw: _trace(obj, **kw)
            if a in ("real", "imag"):
                self.fail(node, "real/imag parts are not modelled")
            self.fail(node, f"array attribute .{a} is not modelled")
        if isinstance(obj, tuple) and a in ("count", "index"):
            return getattr(obj, a)
        if isinstance(obj, slice) and a in ("start", "stop", "step"):
            return getattr(obj, a)
        if isinstance(obj, range) and a in ("start", "stop", "step"):
            return getattr(obj, a)
        # python containers and strings: documented semantics of the builtin methods
        if isinstance(obj, dict) and a in ("copy", "pop", "get", "items", "keys", "values", "update", "setdefault"):
            if a in ("items", "keys", "values"):
                return lambda: list(getattr(obj, a)())
            return getattr(obj, a)
        if isinstance(obj, list) and a in ("append", "extend", "copy", "index", "pop", "insert", "count"):
            return getattr(obj, a)
        if isinstance(obj, str) and a in ("startswith", "endswith", "format", "join", "split", "replace", "strip", "lower", "upper"):
            return getattr(obj, a)
        self.fail(node, f"attribute .{a} of {obj!r}")

    def _comp(self, node, scope, elt):
        out = []

        def rec(gens, sc):
            if not gens:
                out.append(elt(sc))
                return
            g = gens[0]
            it = self.eval(g.iter, sc)
            if isinstance(it, (np.ndarray, dict, str, set)):
                it = list(it)
            if isinstance(it, Stub) and "__iter__" in it._attrs:
                it = list(it._attrs["__iter__"]())
            if not isinstance(it, (range, list, tuple)):
                self.fail(node, f"comprehension over a value of unknown extent ({it!r})")
            for v in it:
                inner = Scope(parent=sc)
                self.assign(g.target, v, inner)
                if all(self.truth(c, inner) for c in g.ifs):
                    rec(gens[1:], inner)

        rec(node.generators, scope)
        return out

    def e_ListComp(self, node, scope):
        return self._comp(node, scope, lambda sc: self.eval(node.elt, sc))

    def e_GeneratorExp(self, node, scope):
        return self._comp(node, scope, lambda sc: self.eval(node.elt, sc))

    def e_NamedExpr(self, node, scope):
        v = self.eval(node.value, scope)
        # (PEP 572: binds in the enclosing function scope, also from inside comprehensions)
        self.assign(node.target, v, scope)
        return v

    def e_Dict(self, node, scope):
        out = {}
        for k, v in zip(node.keys, node.values):
            if k is None:
                out.update(self.eval(v, scope))
            else:
                out[self.eval(k, scope)] = self.eval(v, scope)
        return out

    def e_Set(self, node, scope):
        return {self.eval(e, scope) for e in node.elts}

    def e_Lambda(self, node, scope):
        return Closure(node, scope, self)

    def e_JoinedStr(self, node, scope):
        out = []
        for v in node.values:
            if isinstance(v, ast.Constant):
                out.append(str(v.value))
            elif isinstance(v, ast.FormattedValue):
                val = self.eval(v.value, scope)
                if isinstance(val, (Opaque, Stub)) and not (isinstance(val, Stub) and "__str__" in val._attrs):
                    out.append(f"<{val!r}>")
                elif isinstance(val, Stub):
                    out.append(val._attrs["__str__"]())
                elif v.conversion == 114:
                    out.append(repr(val))
                else:
                    out.append(format(val, self.eval(v.format_spec, scope) if v.format_spec is not None else ""))
        return "".join(out)

    def e_Call(self, node, scope):
        f = self.eval(node.func, scope)
        args = []
        for a in node.args:
            if isinstance(a, ast.Starred):
                args.extend(self.eval(a.value, scope))
            else:
                args.append(self.eval(a, scope))
        kwargs = {}
        for k in node.keywords:
            if k.arg is None:
                kwargs.update(self.eval(k.value, scope))
            else:
                kwargs[k.arg] = self.eval(k.value, scope)
        if isinstance(f, str):  # builtins
            if f == "range":
                return range(*[int(a) for a in args])
            if f == "len":
                return len(args[0])
            if f == "isinstance":
                return self.isinstance_(args[0], args[1], node)
            if f in ("tuple", "list"):
                if args and isinstance(args[0], Stub) and "__iter__" in args[0]._attrs:
                    args = [list(args[0]._attrs["__iter__"]())]
                return (tuple if f == "tuple" else list)(args[0]) if args else (() if f == "tuple" else [])
            if f in ("int", "float"):
                return args[0]
            if f == "abs":
                return abs(args[0])
            if f in ("min", "max"):
                return (min if f == "min" else max)(*args)
            if f == "sum":
                return sum(args[0], *(args[1:]))
            if f == "enumerate":
                return list(enumerate(args[0]))
            if f == "zip":
                return list(zip(*args))
            if f == "slice":
                return slice(*args)
            if f == "str":
                v = args[0]
                return v._attrs["__str__"]() if isinstance(v, Stub) and "__str__" in v._attrs else str(v)
            if f in ("any", "all"):
                return (any if f == "any" else all)(bool(x) for x in args[0])
            if f == "sorted":
                return sorted(args[0])
            if f == "reversed":
                return list(reversed(list(args[0]._attrs["__iter__"]()) if isinstance(args[0], Stub) else list(args[0])))
            if f == "bool":
                return bool(args[0])
            if f == "dict":
                return dict(*args, **kwargs)
            if f == "set":
                return set(*args)
            if f in ("getattr", "hasattr"):
                obj, nm = args[0], args[1]
                if isinstance(obj, Stub):
                    if f == "hasattr":
                        return nm in obj._attrs
                    if nm in obj._attrs:
                        return obj._attrs[nm]
                    if len(args) > 2:
                        return args[2]
                    raise Raised(f"AttributeError: {nm}")
                if isinstance(obj, Opaque):
                    return Opaque(f"{obj.name}.{nm}") if f == "getattr" else self.fail(node, "hasattr on an opaque value")
                self.fail(node, f"{f} on {obj!r}")
            if f == "round":
                from fractions import Fraction

                v = args[0]
                if isinstance(v, sp.Rational):
                    v = Fraction(int(v.p), int(v.q))
                elif isinstance(v, sp.Basic):
                    if not v.is_number:
                        self.fail(node, "round of a symbolic value")
                    v = float(v)
                return round(v, *args[1:])  # python: ties to even
        if isinstance(f, Opaque):
            return Opaque(f"{f.name}(...)")
        if isinstance(f, KindRef):
            if f.make is None:
                self.fail(node, f"construction of {f.name} is not modelled")
            return f.make(*args, **kwargs)
        if callable(f):
            try:
                return f(*args, **kwargs)
            except Raised:
                raise
            except Unsupported:
                raise
            except (ValueError, IndexError, TypeError) as e:
                raise Raised(f"{type(e).__name__}: {e}") from None
        self.fail(node, f"call of {f!r}")

    def isinstance_(self, obj, cls, node):
        clss = cls if isinstance(cls, tuple) else (cls,)
        kind = None
        if isinstance(obj, Stub):
            kind = obj._attrs.get("__kind__")
        elif obj is None:
            kind = ("NoneType",)
        elif isinstance(obj, np.ndarray):
            kind = ("ndarray",)
        elif isinstance(obj, (str, tuple, list)):
            kind = (type(obj).__name__, "Sequence", "Iterable", "Collection")
        elif isinstance(obj, dict):
            kind = ("dict", "Mapping", "MutableMapping", "Iterable", "Collection")
        elif isinstance(obj, (int, float, sp.Basic)):
            kind = (type(obj).__name__, "Number")
        if kind is None:
            self.fail(node, f"isinstance on {obj!r}")
        for c in clss:
            if isinstance(c, str) and c in ("int", "float", "str", "tuple", "list", "dict", "bool", "set"):
                if isinstance(obj, {"int": int, "float": float, "str": str, "tuple": tuple, "list": list, "dict": dict, "bool": bool, "set": set}[c]) and not (c == "int" and isinstance(obj, bool)):
                    return True
                continue
            if isinstance(c, KindRef):
                if c.name in kind:
                    return True
            elif isinstance(c, Opaque):
                nm = c.name.split(".")[-1]
                if nm in kind:
                    return True
            else:
                self.fail(node, f"isinstance against {c!r}")
        return False


class _Prop:
    """attribute computed on access"""

    def __init__(self, f):
        self.f = f

    def __call__(self):
        return self.f()


def prop(f):
    return _Prop(f)


def _dotted(node) -> str:
    parts = []
    while isinstance(node, ast.Attribute):
        parts.append(node.attr)
        node = node.value
    if isinstance(node, ast.Name):
        parts.append(node.id)
        return ".".join(reversed(parts))
    return ""


def arrays_equal(a, b) -> list[tuple]:
    """indices at which two object arrays differ (after expansion)"""
    a, b = np.asarray(a, dtype=object), np.asarray(b, dtype=object)
    if a.shape != b.shape:
        return [("shape", a.shape, b.shape)]
    bad = []
    for idx in np.ndindex(a.shape):
        if sp.expand(sp.sympify(a[idx]) - sp.sympify(b[idx])) != 0:
            bad.append((idx, str(a[idx]), str(b[idx])))
    return bad

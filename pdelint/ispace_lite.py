"""Small shared helpers for the serialisation / decomposition checkers (C14, C17).

Three independent pieces, all purely syntactic (nothing of the repository is imported
or run):

* ``HeapFlow`` -- a flow-sensitive *may-dataflow* interpreter over constructor bodies.
  Values are trees of tuples/dicts whose leaves are *tokens*; a token remembers which
  sources (constructor parameters ``p:<name>``, identity attributes ``a:<name>``) it
  was computed from.  Copies keep the token, value-preserving conversions
  (``tuple(x)``, ``float(x)`` ...) keep a link to their argument, everything else
  makes a fresh token.  After running ``__init__`` the abstract heap tells, for
  every leaf of an attribute, from which parameters it was filled; evaluating a
  property such as ``state`` on that heap tells which leaves it reads.

* size typing (``dim`` vs ``num_axes``) of the expressions used as tensor component
  counts: ``X ** rank``, ``(X,) * rank`` and ``(X, X, *grid_shape)``.

* ``SymEval`` -- a path-enumerating evaluator that turns small integer fragments
  (cursor arithmetic of loops, neighbour case tables) into sympy terms; everything
  it does not understand becomes an uninterpreted term of its evaluated arguments, so
  hoisting/renaming locals does not change the result.
"""

from __future__ import annotations

import ast
import itertools
from dataclasses import dataclass, field
from typing import Any, Callable, Iterable

import sympy as sp

from .core import AnalysisError
from .index import ClassInfo, FuncInfo, Index, dotted, strip_doc

# =============================================================================
# A. HeapFlow
# =============================================================================

_ids = itertools.count(1)


class Value:
    pass


@dataclass(eq=False)
class Tok(Value):
    """leaf of the value domain"""

    deps: frozenset
    parts: tuple = ()  # values this token preserves (conversion argument / join alternatives)
    parent: "Tok | None" = None  # token this one is an element/attribute of
    label: str = ""
    kind: str = ""  # "conv" (value-preserving conversion) | "join-w" | "join-r" | ""
    uid: int = field(default_factory=lambda: next(_ids))

    def __repr__(self):
        return f"<{self.label or 'tok'}#{self.uid} {sorted(self.deps)}>"


@dataclass(eq=False)
class Const(Value):
    value: Any

    def __repr__(self):
        return f"Const({self.value!r})"


@dataclass(eq=False)
class Tup(Value):
    items: list

    def __repr__(self):
        return f"Tup({self.items})"


@dataclass(eq=False)
class DictV(Value):
    items: dict  # constant key -> Value

    def __repr__(self):
        return f"Dict({self.items})"


@dataclass(eq=False)
class View(Value):
    """a read of an identity attribute: same tokens (for coverage), but anything
    *computed* from it depends on the attribute, not on the constructor parameters"""

    attr: str
    value: Value


def unwrap(v: Value) -> Value:
    while isinstance(v, View):
        v = v.value
    return v


def deps_of(v: Value) -> frozenset:
    if isinstance(v, View):
        return frozenset({"a:" + v.attr})
    if isinstance(v, Tok):
        return v.deps
    if isinstance(v, Tup):
        return frozenset().union(*[deps_of(x) for x in v.items]) if v.items else frozenset()
    if isinstance(v, DictV):
        return frozenset().union(*[deps_of(x) for x in v.items.values()]) if v.items else frozenset()
    return frozenset()


def leaves(v: Value, path: str = "") -> list[tuple[str, Value]]:
    """(access path, leaf) pairs of a value; leaves are tokens and constants"""
    v = unwrap(v)
    if isinstance(v, Tup):
        out = []
        for i, x in enumerate(v.items):
            out += leaves(x, f"{path}[{i}]")
        return out
    if isinstance(v, DictV):
        out = []
        for k, x in v.items.items():
            out += leaves(x, f"{path}[{k!r}]")
        return out
    return [(path, v)]


def reached(values: Iterable[Value]) -> set[int]:
    """ids of every token that flows (value-preservingly) into one of ``values``.

    Conversions are followed to their argument.  A join made while *reading* (the
    branches of a property such as ``radius``) is followed into every alternative:
    reader branches are assumed to drop only what their condition implies.  A join
    made while *writing* (``__init__``) is a leaf: reading it yields one alternative,
    not all of them."""
    seen: set[int] = set()
    todo = list(values)
    while todo:
        v = unwrap(todo.pop())
        if isinstance(v, Tup):
            todo += v.items
        elif isinstance(v, DictV):
            todo += list(v.items.values())
        elif isinstance(v, Tok):
            if v.uid in seen:
                continue
            seen.add(v.uid)
            if v.kind != "join-w":
                todo += list(v.parts)
    return seen


def covered(leaf: Value, seen: set[int]) -> bool:
    """is ``leaf`` recoverable from the tokens in ``seen``: the token itself or a token
    it is an element of was read, or every alternative it joins was read"""
    leaf = unwrap(leaf)
    if isinstance(leaf, Const):
        return True
    if isinstance(leaf, (Tup, DictV)):
        return all(covered(x, seen) for _, x in leaves(leaf))
    assert isinstance(leaf, Tok)
    t: Tok | None = leaf
    while t is not None:
        if t.uid in seen:
            return True
        t = t.parent
    if leaf.parts:
        return all(covered(p, seen) for p in leaf.parts)
    return False


TRANSPARENT_FUNCS = {
    # value-preserving conversions: the result determines the argument
    "tuple", "list", "float", "int", "bool", "dict", "str",
    "np.array", "np.asarray", "np.asanyarray", "np.atleast_1d", "np.double",
}  # fmt: skip
TRANSPARENT_METHODS = {"copy", "tolist", "view"}


class _Bottom:
    """state of a path that has terminated (raise / return)"""


BOTTOM = _Bottom()


@dataclass
class State:
    env: dict
    heap: dict

    def copy(self) -> "State":
        return State(dict(self.env), dict(self.heap))


class HeapFlow:
    """May-dataflow interpretation of constructors/properties of one class."""

    def __init__(self, ix: Index, cls: ClassInfo, identity_attrs: Iterable[str] = (), max_depth: int = 6):
        self.ix = ix
        self.cls = cls
        self.identity_attrs = set(identity_attrs)
        self.max_depth = max_depth
        self._elem: dict[tuple, Tok] = {}
        self._join: dict[tuple, Value] = {}
        self.unresolved: list[str] = []
        self.interpreted: list[str] = []
        self.reading = False  # True while evaluating reader properties on a finished heap

    # ---------------------------------------------------------------- values
    def fresh(self, deps=frozenset(), label="", parts=()) -> Tok:
        return Tok(deps=frozenset(deps), parts=tuple(parts), label=label)

    def param(self, name: str) -> Tok:
        return self.fresh({"p:" + name}, label="param:" + name)

    def elem(self, base: Value, key) -> Value:
        """element / attribute ``key`` of ``base``"""
        if isinstance(base, View):
            return View(base.attr, self.elem(base.value, key))
        if isinstance(base, Tup) and isinstance(key, int):
            if -len(base.items) <= key < len(base.items):
                return base.items[key]
        if isinstance(base, DictV) and key in base.items:
            return base.items[key]
        if isinstance(base, Tok):
            k = (base.uid, key)
            if k not in self._elem:
                self._elem[k] = Tok(deps=base.deps, parent=base, label=f"{base.label}[{key}]" if not isinstance(key, str) or not key.startswith(".") else f"{base.label}{key}")
            return self._elem[k]
        if isinstance(base, Const):
            return self.fresh(label="elem-of-const")
        # unknown index into a known structure: may be any element
        return self.join_all(list(unwrap(base).items) if isinstance(unwrap(base), Tup) else list(unwrap(base).items.values()))

    def join(self, a: Value, b: Value) -> Value:
        if a is b:
            return a
        if a is None:
            return b
        if b is None:
            return a
        if isinstance(a, View) and isinstance(b, View) and a.attr == b.attr:
            return View(a.attr, self.join(a.value, b.value))
        if isinstance(a, Const) and isinstance(b, Const) and type(a.value) is type(b.value) and a.value == b.value:
            return a
        if isinstance(a, Tup) and isinstance(b, Tup) and len(a.items) == len(b.items):
            return Tup([self.join(x, y) for x, y in zip(a.items, b.items)])
        if isinstance(a, DictV) and isinstance(b, DictV) and set(a.items) == set(b.items):
            return DictV({k: self.join(a.items[k], b.items[k]) for k in a.items})
        k = (id(a), id(b))
        if k not in self._join:
            self._join[k] = (a, b, Tok(deps=deps_of(a) | deps_of(b), parts=(a, b), label="join", kind="join-r" if self.reading else "join-w"))
        return self._join[k][2]

    def join_all(self, vals: list) -> Value:
        if not vals:
            return self.fresh(label="empty")
        out = vals[0]
        for v in vals[1:]:
            out = self.join(out, v)
        return out

    def join_states(self, a, b):
        if a is BOTTOM:
            return b
        if b is BOTTOM:
            return a
        env = {k: self.join(a.env.get(k), b.env.get(k)) for k in set(a.env) | set(b.env)}
        heap = {k: self.join(a.heap.get(k), b.heap.get(k)) for k in set(a.heap) | set(b.heap)}
        return State(env, heap)

    # ---------------------------------------------------------------- class lookups
    def _property(self, name: str) -> FuncInfo | None:
        f = self.cls.find_method(name, kind="getter")
        if f is None:
            return None
        if any(d.split(".")[-1] in ("property", "cached_property") or d.endswith("cached_property()") for d in f.decorator_names):
            return f
        return None

    def _has_setter(self, name: str) -> bool:
        return self.cls.find_method(name, kind="setter") is not None

    # ---------------------------------------------------------------- entry points
    def run_init(self, args: dict[str, Value] | None = None) -> tuple[State, FuncInfo]:
        """interpret the resolved ``__init__`` with every parameter a fresh source"""
        init = self.cls.find_method("__init__")
        if init is None:
            raise AnalysisError(f"{self.cls.ref}: no __init__ found")
        st = State({}, {})
        a = init.node.args
        names = [p.arg for p in a.posonlyargs + a.args][1:] + [p.arg for p in a.kwonlyargs]
        binding = {n: (args or {}).get(n) or self.param(n) for n in names}
        if a.vararg or a.kwarg:
            raise AnalysisError(f"{init.ref}: *args/**kwargs constructors are outside the grammar of the state analysis")
        out = self._call_function(init, binding, st.heap, depth=0)
        return State({}, out[1]), init

    def eval_property(self, name: str, heap: dict, depth: int = 0) -> Value:
        f = self._property(name)
        if f is None:
            raise AnalysisError(f"{self.cls.ref}: `{name}` is not a property")
        self.reading = True
        try:
            ret, _ = self._call_function(f, {}, dict(heap), depth)
        finally:
            self.reading = False
        return ret

    def _call_function(self, fi: FuncInfo, binding: dict, heap: dict, depth: int):
        if depth > self.max_depth:
            raise AnalysisError(f"{fi.ref}: call depth exceeded in state analysis")
        self.interpreted.append(fi.ref)
        st = State(dict(binding), heap)
        st.env["__func__"] = fi  # for super()
        rets: list = []
        end = self.block(strip_doc(fi.node.body), st, rets, depth)
        final_heap = end.heap if end is not BOTTOM else None
        for _, rheap in rets:
            final_heap = rheap if final_heap is None else self.join_states(State({}, final_heap), State({}, rheap)).heap
        if final_heap is None:
            final_heap = heap
        vals = [v for v, _ in rets if v is not None]
        return (self.join_all(vals) if vals else Const(None)), final_heap

    # ---------------------------------------------------------------- statements
    def block(self, body: list, st, rets: list, depth: int):
        for s in body:
            if st is BOTTOM:
                return st
            st = self.stmt(s, st, rets, depth)
        return st

    def stmt(self, s: ast.stmt, st: State, rets: list, depth: int):
        if isinstance(s, (ast.Pass, ast.Import, ast.ImportFrom, ast.Assert, ast.Global, ast.Nonlocal, ast.FunctionDef, ast.ClassDef)):
            return st
        if isinstance(s, ast.Expr):
            self.expr_stmt(s.value, st, depth)
            return st
        if isinstance(s, ast.Assign):
            v = self.ev(s.value, st, depth)
            for t in s.targets:
                self.assign(t, v, st, depth)
            return st
        if isinstance(s, ast.AnnAssign):
            if s.value is not None:
                self.assign(s.target, self.ev(s.value, st, depth), st, depth)
            return st
        if isinstance(s, ast.AugAssign):
            load = ast.copy_location(_as_load(s.target), s.target)
            cur = self.ev(load, st, depth)
            v = self.ev(s.value, st, depth)
            self.assign(s.target, self.fresh(deps_of(cur) | deps_of(v), label="aug"), st, depth)
            return st
        if isinstance(s, ast.Return):
            rets.append((self.ev(s.value, st, depth) if s.value is not None else Const(None), dict(st.heap)))
            return BOTTOM
        if isinstance(s, ast.Raise):
            return BOTTOM
        if isinstance(s, ast.If):
            self.ev(s.test, st, depth)
            a = self.block(s.body, st.copy(), rets, depth)
            b = self.block(s.orelse, st.copy(), rets, depth)
            return self.join_states(a, b)
        if isinstance(s, ast.Try):
            body_end = self.block(s.body, st.copy(), rets, depth)
            out = self.block(s.orelse, body_end, rets, depth) if body_end is not BOTTOM else BOTTOM
            pre = self.join_states(st.copy(), body_end)
            for h in s.handlers:
                hs = pre.copy() if pre is not BOTTOM else BOTTOM
                if hs is not BOTTOM and h.name:
                    hs.env[h.name] = self.fresh(label="exc")
                out = self.join_states(out, self.block(h.body, hs, rets, depth))
            if s.finalbody:
                out = self.block(s.finalbody, out, rets, depth)
            return out
        if isinstance(s, (ast.For, ast.While)):
            cur = st
            for _ in range(2):  # two rounds reach the fixpoint of a pure dependency domain
                body_st = cur.copy()
                if isinstance(s, ast.For):
                    it = self.ev(s.iter, body_st, depth)
                    self.assign(s.target, self.iter_elem(it), body_st, depth)
                else:
                    self.ev(s.test, body_st, depth)
                end = self.block(s.body, body_st, rets, depth)
                cur = self.join_states(cur, end)
            return self.block(s.orelse, cur, rets, depth) if s.orelse else cur
        if isinstance(s, ast.With):
            for item in s.items:
                v = self.ev(item.context_expr, st, depth)
                if item.optional_vars is not None:
                    self.assign(item.optional_vars, self.fresh(deps_of(v), label="with"), st, depth)
            return self.block(s.body, st, rets, depth)
        if isinstance(s, ast.Delete):
            for t in s.targets:
                if isinstance(t, ast.Subscript):
                    base = self.ev(t.value, st, depth)
                    key = _const_key(t.slice)
                    if isinstance(unwrap(base), DictV) and key is not None and isinstance(t.value, ast.Name):
                        d = dict(unwrap(base).items)
                        d.pop(key, None)
                        st.env[t.value.id] = DictV(d)
                        continue
                raise AnalysisError(f"{self.cls.ref}: unsupported `del` in state analysis (line {s.lineno})")
            return st
        if isinstance(s, (ast.Break, ast.Continue)):
            return st
        raise AnalysisError(f"{self.cls.ref}: statement {type(s).__name__} (line {s.lineno}) outside the grammar of the state analysis")

    def iter_elem(self, it: Value) -> Value:
        u = unwrap(it)
        if isinstance(u, Tup):
            v = self.join_all(list(u.items))
            return View(it.attr, v) if isinstance(it, View) else v
        return self.elem(it, "*") if isinstance(u, Tok) else self.fresh(deps_of(it), label="iter")

    def assign(self, target: ast.expr, v: Value, st: State, depth: int) -> None:
        if isinstance(target, ast.Name):
            st.env[target.id] = v
        elif isinstance(target, (ast.Tuple, ast.List)):
            n = len(target.elts)
            for i, t in enumerate(target.elts):
                if isinstance(t, ast.Starred):
                    self.assign(t.value, self.fresh(deps_of(v), label="star"), st, depth)
                else:
                    u = unwrap(v)
                    if isinstance(u, Tup) and len(u.items) != n:
                        self.assign(t, self.fresh(deps_of(v), label="unpack"), st, depth)
                    else:
                        self.assign(t, self.elem(v, i), st, depth)
        elif isinstance(target, ast.Attribute) and isinstance(target.value, ast.Name) and target.value.id == "self":
            # a property with a setter stands for the value given to it (getter/setter
            # pairs are assumed coherent)
            st.heap[_demangle(target.attr, self.cls)] = unwrap(v) if not isinstance(v, View) else v.value
        elif isinstance(target, ast.Subscript):
            # weak update of a container held in a local / attribute
            base = target.value
            key = _const_key(target.slice)
            cur = self.ev(base, st, depth)
            u = unwrap(cur)
            if isinstance(u, DictV) and key is not None:
                new: Value = DictV({**u.items, key: v})
            elif isinstance(u, Tup) and isinstance(key, int) and -len(u.items) <= key < len(u.items):
                items = list(u.items)
                items[key] = v
                new = Tup(items)
            else:
                self.ev(target.slice, st, depth)
                new = self.join(cur, self.fresh(deps_of(v) | deps_of(cur), label="store"))
            if isinstance(base, ast.Name):
                st.env[base.id] = new
            elif isinstance(base, ast.Attribute) and isinstance(base.value, ast.Name) and base.value.id == "self":
                st.heap[_demangle(base.attr, self.cls)] = unwrap(new)
            # stores into other objects do not concern the heap of ``self``
        elif isinstance(target, ast.Attribute):
            pass  # attribute of another object
        elif isinstance(target, ast.Starred):
            self.assign(target.value, v, st, depth)
        else:
            raise AnalysisError(f"{self.cls.ref}: assignment target {type(target).__name__} outside the grammar")

    def expr_stmt(self, e: ast.expr, st: State, depth: int) -> None:
        # mutation of a local container: x.append(v) / x.extend(v) / x.update(v)
        if isinstance(e, ast.Call) and isinstance(e.func, ast.Attribute) and e.func.attr in ("append", "extend", "update", "insert", "add", "setdefault"):
            recv = e.func.value
            args = [self.ev(a, st, depth) for a in e.args] + [self.ev(k.value, st, depth) for k in e.keywords]
            cur = self.ev(recv, st, depth)
            d = deps_of(cur)
            for a in args:
                d |= deps_of(a)
            new = self.join(cur, self.fresh(d, label=e.func.attr))
            if isinstance(recv, ast.Name):
                st.env[recv.id] = new
            elif isinstance(recv, ast.Attribute) and isinstance(recv.value, ast.Name) and recv.value.id == "self":
                st.heap[_demangle(recv.attr, self.cls)] = unwrap(new)
            return
        self.ev(e, st, depth)

    # ---------------------------------------------------------------- expressions
    def ev(self, e: ast.expr | None, st: State, depth: int) -> Value:
        if e is None:
            return Const(None)
        if isinstance(e, ast.Constant):
            return Const(e.value)
        if isinstance(e, ast.Name):
            if e.id in st.env and e.id != "__func__":
                return st.env[e.id]
            return Const(("global", e.id))
        if isinstance(e, (ast.Tuple, ast.List)):
            if any(isinstance(x, ast.Starred) for x in e.elts):
                d = frozenset()
                parts = []
                for x in e.elts:
                    v = self.ev(x.value if isinstance(x, ast.Starred) else x, st, depth)
                    d |= deps_of(v)
                    parts.append(v)
                return self.fresh(d, label="tuple*", parts=parts)
            return Tup([self.ev(x, st, depth) for x in e.elts])
        if isinstance(e, ast.Dict):
            keys = [_const_key(k) if k is not None else None for k in e.keys]
            vals = [self.ev(v, st, depth) for v in e.values]
            if all(k is not None for k in keys):
                return DictV(dict(zip(keys, vals)))
            return self.fresh(frozenset().union(*[deps_of(v) for v in vals]) if vals else frozenset(), label="dict", parts=vals)
        if isinstance(e, ast.Attribute):
            if isinstance(e.value, ast.Name) and e.value.id == "self" and "self" not in st.env:
                return self.self_attr(e.attr, st.heap, depth)
            base = self.ev(e.value, st, depth)
            if isinstance(unwrap(base), Const):
                return Const(("attr", e.attr))
            return self.elem(base, "." + e.attr)
        if isinstance(e, ast.Subscript):
            base = self.ev(e.value, st, depth)
            key = _const_key(e.slice)
            if key is not None and not isinstance(e.slice, ast.Slice):
                return self.elem(base, key)
            idx = self.ev(e.slice, st, depth) if not isinstance(e.slice, ast.Slice) else self.fresh(
                frozenset().union(*[deps_of(self.ev(x, st, depth)) for x in (e.slice.lower, e.slice.upper, e.slice.step) if x is not None]) if any((e.slice.lower, e.slice.upper, e.slice.step)) else frozenset(),
                label="slice",
            )
            return self.fresh(deps_of(base) | deps_of(idx), label="subscript")
        if isinstance(e, ast.Starred):
            return self.ev(e.value, st, depth)
        if isinstance(e, ast.IfExp):
            self.ev(e.test, st, depth)
            return self.join(self.ev(e.body, st, depth), self.ev(e.orelse, st, depth))
        if isinstance(e, ast.Call):
            return self.call(e, st, depth)
        if isinstance(e, ast.NamedExpr):
            v = self.ev(e.value, st, depth)
            self.assign(e.target, v, st, depth)
            return v
        if isinstance(e, (ast.ListComp, ast.SetComp, ast.GeneratorExp, ast.DictComp)):
            inner = State(dict(st.env), st.heap)
            d = frozenset()
            for g in e.generators:
                it = self.ev(g.iter, inner, depth)
                d |= deps_of(it)
                self.assign(g.target, self.iter_elem(it), inner, depth)
                for c in g.ifs:
                    d |= deps_of(self.ev(c, inner, depth))
            if isinstance(e, ast.DictComp):
                d |= deps_of(self.ev(e.key, inner, depth)) | deps_of(self.ev(e.value, inner, depth))
            else:
                d |= deps_of(self.ev(e.elt, inner, depth))
            return self.fresh(d, label="comp")
        if isinstance(e, ast.Lambda):
            return self.fresh(label="lambda")
        # generic operators: the result depends on every operand
        d = frozenset()
        for sub in ast.iter_child_nodes(e):
            if isinstance(sub, ast.expr):
                d |= deps_of(self.ev(sub, st, depth))
        return self.fresh(d, label=type(e).__name__)

    def self_attr(self, attr: str, heap: dict, depth: int) -> Value:
        name = _demangle(attr, self.cls)
        if name in heap:
            v = heap[name]
            return View(name, v) if name in self.identity_attrs else v
        prop = self._property(attr)
        if prop is not None:
            ret, _ = self._call_function(prop, {}, heap, depth + 1)
            return ret
        ca = self.cls.find_attr(attr)
        if ca is not None:
            v = self.ev(ca[1], State({"self": Const("class-body")}, {}), depth)
            return View(name, v) if name in self.identity_attrs else v
        if self.cls.find_method(attr) is not None:
            return Const(("method", attr))
        self.unresolved.append(f"self.{attr}")
        return self.fresh(label=f"self.{attr}?")

    def call(self, e: ast.Call, st: State, depth: int) -> Value:
        fn = dotted(e.func)
        # super().__init__(...)
        if isinstance(e.func, ast.Attribute) and isinstance(e.func.value, ast.Call) and dotted(e.func.value.func) == "super":
            cur: FuncInfo = st.env.get("__func__")
            target = self._super_method(cur, e.func.attr)
            if target is None:
                return Const(None)  # object.__init__
            binding = self._bind(target, e, st, depth, skip_self=True)
            ret, heap = self._call_function(target, binding, st.heap, depth + 1)
            new = dict(heap)
            st.heap.clear()
            st.heap.update(new)
            return ret
        args = [self.ev(a, st, depth) for a in e.args]
        kws = [self.ev(k.value, st, depth) for k in e.keywords]
        if fn in TRANSPARENT_FUNCS and len(args) == 1 and not kws:
            a = args[0]
            return Tok(deps=deps_of(a), parts=(a,), label=fn + "()", kind="conv")
        if isinstance(e.func, ast.Attribute):
            recv = self.ev(e.func.value, st, depth)
            if e.func.attr in TRANSPARENT_METHODS and not args and not kws:
                return Tok(deps=deps_of(recv), parts=(recv,), label="." + e.func.attr + "()", kind="conv")
            if isinstance(e.func.value, ast.Name) and e.func.value.id == "self" and "self" not in st.env:
                m = self.cls.find_method(e.func.attr)
                self.unresolved.append(f"self.{e.func.attr}() [treated as pure]")
                recv = Const(None) if m is not None else recv
            d = deps_of(recv)
        else:
            d = deps_of(self.ev(e.func, st, depth)) if not isinstance(e.func, ast.Name) or e.func.id in st.env else frozenset()
        for a in args + kws:
            d |= deps_of(a)
        return self.fresh(d, label=fn)

    def _super_method(self, cur: FuncInfo, name: str) -> FuncInfo | None:
        mro = self.cls.mro()
        if cur.cls is None or cur.cls not in mro:
            raise AnalysisError(f"{cur.ref}: super() outside the class hierarchy of {self.cls.ref}")
        for c in mro[mro.index(cur.cls) + 1 :]:
            for f in c.methods.get(name, []):
                if not any(d.endswith(".setter") for d in f.decorator_names):
                    return f
        return None

    def _bind(self, target: FuncInfo, call: ast.Call, st: State, depth: int, skip_self: bool) -> dict:
        a = target.node.args
        pos = [p.arg for p in a.posonlyargs + a.args]
        if skip_self:
            pos = pos[1:]
        kwonly = [p.arg for p in a.kwonlyargs]
        binding: dict[str, Value] = {}
        if any(isinstance(x, ast.Starred) for x in call.args) or any(k.arg is None for k in call.keywords):
            raise AnalysisError(f"{target.ref}: star-arguments in a constructor chain are outside the grammar")
        for name, arg in zip(pos, call.args):
            binding[name] = self.ev(arg, st, depth)
        if len(call.args) > len(pos):
            raise AnalysisError(f"{target.ref}: too many positional arguments")
        for k in call.keywords:
            if k.arg not in pos + kwonly:
                raise AnalysisError(f"{target.ref}: unknown keyword {k.arg}")
            binding[k.arg] = self.ev(k.value, st, depth)
        # defaults
        defaults = dict(zip(reversed([p.arg for p in a.posonlyargs + a.args]), reversed(a.defaults)))
        for p, dflt in zip(a.kwonlyargs, a.kw_defaults):
            if dflt is not None:
                defaults[p.arg] = dflt
        for name in pos + kwonly:
            if name not in binding:
                if name in defaults:
                    binding[name] = self.ev(defaults[name], State({}, {}), depth)
                else:
                    raise AnalysisError(f"{target.ref}: parameter {name} not bound")
        return binding


def _as_load(t: ast.expr) -> ast.expr:
    import copy

    n = copy.deepcopy(t)
    for sub in ast.walk(n):
        if hasattr(sub, "ctx"):
            sub.ctx = ast.Load()
    return n


def _const_key(node: ast.AST | None):
    if isinstance(node, ast.Constant) and isinstance(node.value, (int, str)) and not isinstance(node.value, bool):
        return node.value
    if isinstance(node, ast.UnaryOp) and isinstance(node.op, ast.USub) and isinstance(node.operand, ast.Constant) and isinstance(node.operand.value, int):
        return -node.operand.value
    return None


def _demangle(attr: str, cls: ClassInfo) -> str:
    return attr


# =============================================================================
# B. size typing: dim / num_axes
# =============================================================================

DIM, AXES, LITERAL, OTHER = "dim", "num_axes", "literal", "other"

# containers indexed by the non-symmetric axes of a grid: their length is num_axes
AXES_CONTAINERS = {"shape", "axes", "periodic", "axes_bounds", "axes_coords", "discretization", "_shape", "_periodic", "_axes_bounds", "_shape_full"}
RANK_WORDS = ("rank",)


class Scope:
    """assignments visible at an expression: the chain of enclosing function bodies"""

    def __init__(self, funcs: list[ast.FunctionDef]):
        self.funcs = funcs  # innermost first
        self._assign: dict[str, list[ast.expr]] = {}
        self._params: set[str] = set()
        for f in funcs:
            a = f.args
            for p in a.posonlyargs + a.args + a.kwonlyargs:
                self._params.add(p.arg)
            for n in _walk_own(f):
                if isinstance(n, ast.Assign):
                    for t in n.targets:
                        self._bind(t, n.value)
                elif isinstance(n, ast.AnnAssign) and n.value is not None:
                    self._bind(n.target, n.value)
                elif isinstance(n, ast.AugAssign) and isinstance(n.target, ast.Name):
                    self._assign.setdefault(n.target.id, []).append(ast.BinOp(left=ast.Name(id="\0self"), op=n.op, right=n.value))
                elif isinstance(n, (ast.For, ast.comprehension)):
                    for t in ast.walk(n.target):
                        if isinstance(t, ast.Name):
                            self._assign.setdefault(t.id, []).append(ast.Constant(value=Ellipsis))

    def _bind(self, t: ast.expr, value: ast.expr) -> None:
        if isinstance(t, ast.Name):
            self._assign.setdefault(t.id, []).append(value)
        elif isinstance(t, (ast.Tuple, ast.List)):
            if isinstance(value, (ast.Tuple, ast.List)) and len(value.elts) == len(t.elts):
                for a, b in zip(t.elts, value.elts):
                    self._bind(a, b)
            else:
                for a in t.elts:
                    for nm in ast.walk(a):
                        if isinstance(nm, ast.Name):
                            self._assign.setdefault(nm.id, []).append(ast.Constant(value=Ellipsis))

    def definitions(self, name: str) -> list[ast.expr] | None:
        """defining expressions of a local, ``None`` if it is only a parameter/global"""
        return self._assign.get(name)

    def is_param(self, name: str) -> bool:
        return name in self._params


def _walk_own(f: ast.AST):
    """nodes of a function body without descending into nested function definitions"""
    todo = list(ast.iter_child_nodes(f))
    while todo:
        n = todo.pop()
        yield n
        if isinstance(n, (ast.FunctionDef, ast.AsyncFunctionDef, ast.Lambda, ast.ClassDef)):
            continue
        todo.extend(ast.iter_child_nodes(n))


def size_type(e: ast.expr, scope: Scope, _seen: frozenset = frozenset()) -> set[str]:
    """set of size types an expression may have: DIM, AXES, LITERAL, OTHER"""
    if isinstance(e, ast.Constant):
        return {LITERAL}
    if isinstance(e, ast.Attribute):
        if e.attr == "dim":
            return {DIM}
        if e.attr == "num_axes":
            return {AXES}
        return {OTHER}
    if isinstance(e, ast.Call) and dotted(e.func) == "len" and len(e.args) == 1:
        a = e.args[0]
        if isinstance(a, ast.Attribute) and a.attr in AXES_CONTAINERS:
            return {AXES}
        return {OTHER}
    if isinstance(e, ast.Call) and dotted(e.func) == "int" and len(e.args) == 1:
        return size_type(e.args[0], scope, _seen)
    if isinstance(e, ast.Name):
        if e.id in _seen:
            return set()
        defs = scope.definitions(e.id)
        if defs:
            out: set[str] = set()
            for d in defs:
                out |= size_type(d, scope, _seen | {e.id})
            return out or {OTHER}
        if scope.is_param(e.id) or defs is None:
            # frozen signature entries: a parameter/closure variable called `dim` holds
            # grid.dim, one called `num_axes` holds grid.num_axes
            if e.id == "dim":
                return {DIM}
            if e.id == "num_axes":
                return {AXES}
        return {OTHER}
    return {OTHER}


def is_rank_typed(e: ast.expr, scope: Scope, _seen: frozenset = frozenset()) -> bool:
    """does the expression compute a tensor rank (identifier table: `rank`, `rank_*`,
    `*_rank`, attribute `.rank*`; locals are resolved through their definitions)"""
    for n in ast.walk(e):
        ident = None
        if isinstance(n, ast.Attribute):
            ident = n.attr
        elif isinstance(n, ast.Name):
            ident = n.id
            defs = scope.definitions(n.id)
            if defs and n.id not in _seen:
                if any(is_rank_typed(d, scope, _seen | {n.id}) for d in defs if not (isinstance(d, ast.Constant))):
                    return True
        if ident and (ident == "rank" or ident.startswith("rank_") or ident.endswith("_rank")):
            return True
    return False


@dataclass
class CountSite:
    func: FuncInfo | None
    module_rel: str
    node: ast.AST
    idiom: str  # "pow" | "repeat" | "star-shape"
    base: ast.expr  # the X of X**rank / (X,)*rank
    types: set
    role: str

    @property
    def where(self) -> str:
        return f"{self.func.ref if self.func else self.module_rel + '::<module>'}"


def component_count_sites(ix: Index, rel_filter: Callable[[str], bool] | None = None) -> list[CountSite]:
    """every expression that computes the number (or the shape) of tensor components"""
    sites: list[CountSite] = []
    for m in ix.modules.values():
        if rel_filter and not rel_filter(m.rel):
            continue
        node_func: dict[int, FuncInfo] = {}
        for f in m.functions.values():
            node_func[id(f.node)] = f
        scopes: dict[tuple, Scope] = {}

        def visit(n: ast.AST, chain: list[ast.FunctionDef]) -> None:
            if isinstance(n, ast.FunctionDef):
                chain = [n, *chain]
            for c in ast.iter_child_nodes(n):
                visit(c, chain)
            if not isinstance(n, (ast.BinOp, ast.Tuple, ast.List)):
                return
            # cheap structural pre-filter before the scope (def-use table) is built
            if isinstance(n, ast.BinOp):
                if isinstance(n.op, ast.Mult):
                    if not any(isinstance(x, (ast.Tuple, ast.List)) and len(x.elts) == 1 for x in (n.left, n.right)):
                        return
                elif not isinstance(n.op, ast.Pow):
                    return
            elif not (len(n.elts) >= 2 and any(isinstance(x, ast.Starred) for x in n.elts[1:]) and not isinstance(n.elts[0], ast.Starred)):
                return
            key = tuple(id(c) for c in chain)
            if key not in scopes:
                scopes[key] = Scope(chain)
            scope = scopes[key]
            fi = node_func.get(id(chain[0])) if chain else None
            found: list[tuple[str, ast.expr]] = []
            if isinstance(n, ast.BinOp) and isinstance(n.op, ast.Pow):
                if is_rank_typed(n.right, scope):
                    found.append(("pow", n.left))
            elif isinstance(n, ast.BinOp) and isinstance(n.op, ast.Mult):
                for seq, cnt in ((n.left, n.right), (n.right, n.left)):
                    if isinstance(seq, (ast.Tuple, ast.List)) and len(seq.elts) == 1 and not isinstance(seq.elts[0], ast.Starred):
                        x = seq.elts[0]
                        t = size_type(x, scope)
                        # a replicated *size* is a component shape; replicated objects
                        # (None, slices, norms ...) are index padding / plain lists
                        if t & {DIM, AXES}:
                            found.append(("repeat", x))
            elif isinstance(n, (ast.Tuple, ast.List)) and isinstance(getattr(n, "ctx", None), ast.Load):
                stars = [i for i, x in enumerate(n.elts) if isinstance(x, ast.Starred)]
                if stars and stars[0] > 0:
                    lead = n.elts[: stars[0]]
                    ts = [size_type(x, scope) for x in lead]
                    if all(t & {DIM, AXES} for t in ts):
                        for x in lead:
                            found.append(("star-shape", x))
            for idiom, x in found:
                k = sum(1 for s in sites if s.func is fi and s.module_rel == m.rel and s.idiom == idiom)
                sites.append(CountSite(fi, m.rel, n, idiom, x, size_type(x, scope), f"{idiom}#{k}"))

        visit(m.tree, [])
    return sites


def _is_index_padding(x: ast.expr) -> bool:
    """(None,)*k, (slice(...),)*k, (...,)*k build index tuples, not component shapes"""
    if isinstance(x, ast.Constant):
        return True
    if isinstance(x, ast.Call) and dotted(x.func) == "slice":
        return True
    if isinstance(x, ast.Attribute) and dotted(x) in ("np.newaxis",):
        return True
    return False


# =============================================================================
# C. SymEval -- small integer fragments as sympy terms
# =============================================================================

NONE = sp.Symbol("None")
ELLIPSIS = sp.Symbol("Ellipsis")


def F(name: str):
    return sp.Function(name)


class PyList:
    """a python list tracked symbolically: unknown initial content ``base`` (or a known
    list of items), stores by key, appended items"""

    def __init__(self, base=None, items: list | None = None, repeat=None):
        self.base = base  # sympy term standing for the initial content (or None)
        self.items = items  # known items (list of values) or None
        self.repeat = repeat  # (item, count) when built as [item] * count
        self.stores: list[tuple[Any, Any]] = []
        self.appended: list = []
        self.extended: list = []  # values passed to .extend()

    def copy(self) -> "PyList":
        c = PyList(self.base, list(self.items) if self.items is not None else None, self.repeat)
        c.stores = list(self.stores)
        c.appended = list(self.appended)
        c.extended = list(self.extended)
        return c

    def load(self, key):
        for k, v in reversed(self.stores):
            if _same(k, key):
                return v
            if not _surely_different(k, key):
                raise AnalysisError(f"cannot decide whether list keys {k} and {key} coincide")
        if self.items is not None and isinstance(key, sp.Integer) and -len(self.items) <= int(key) < len(self.items):
            return self.items[int(key)]
        if self.repeat is not None:
            return self.repeat[0]
        if self.base is not None:
            return F("elem")(self.base, key)
        raise AnalysisError(f"list element {key} unknown")

    def length(self):
        n = sp.Integer(len(self.items)) if self.items is not None else (self.repeat[1] if self.repeat is not None else F("len")(self.base))
        n += len(self.appended)
        for x in self.extended:
            n += F("len")(x) if not isinstance(x, PyList) else x.length()
        return n

    def term(self):
        """sympy term describing the list (for use as an uninterpreted argument)"""
        if self.items is not None:
            t = F("list")(*[_as_term(x) for x in self.items])
        elif self.repeat is not None:
            t = F("repeat")(_as_term(self.repeat[0]), self.repeat[1])
        else:
            t = self.base
        for k, v in self.stores:
            t = F("store")(t, k, _as_term(v))
        for v in self.appended:
            t = F("append")(t, _as_term(v))
        for v in self.extended:
            t = F("extend")(t, _as_term(v))
        return t


def _same(a, b) -> bool:
    try:
        return sp.simplify(a - b) == 0
    except Exception:  # noqa: BLE001
        return a == b


def _surely_different(a, b) -> bool:
    try:
        d = sp.simplify(a - b)
        return d.is_number and d != 0
    except Exception:  # noqa: BLE001
        return False


def _as_term(v):
    if isinstance(v, PyList):
        return v.term()
    if isinstance(v, tuple):
        return F("tuple")(*[_as_term(x) for x in v])
    if isinstance(v, SliceV):
        return F("slice")(*[NONE if x is None else x for x in (v.lo, v.hi, v.step)])
    if isinstance(v, StarV):
        return F("star")(_as_term(v.value))
    if isinstance(v, bool):
        return sp.true if v else sp.false
    if v is None:
        return NONE
    return v


@dataclass(frozen=True)
class SliceV:
    lo: Any
    hi: Any
    step: Any = None


@dataclass(frozen=True)
class StarV:
    value: Any


@dataclass
class Path:
    env: dict
    guards: list = field(default_factory=list)  # (sympy boolean term, polarity)
    events: list = field(default_factory=list)  # (kind, payload...)
    outcome: tuple | None = None  # ("return", value) | ("raise", name) | None

    def fork(self) -> "Path":
        env = {k: (v.copy() if isinstance(v, PyList) else v) for k, v in self.env.items()}
        return Path(env, list(self.guards), list(self.events), self.outcome)


class SymEval:
    """Path-enumerating evaluator for straight-line integer bookkeeping.

    * integers/booleans/None are evaluated; ``+ - * //`` are sympy arithmetic;
    * comparisons become sympy relationals, decided when constant, otherwise the path
      forks and the literal is recorded in ``Path.guards``;
    * attribute access, subscripts and calls on unknown objects become uninterpreted
      terms of their evaluated arguments (``attr_x(obj)``, ``elem(obj, key)``,
      ``call_f(args)``), so a hoisted local is the same term as the inlined expression;
    * lists are tracked (``PyList``): stores by key, ``append``/``extend``, ``len``;
    * ``ev_hook(node, path)`` may intercept calls (return ``NotImplemented`` to decline).
    """

    def __init__(self, where: str, ev_hook: Callable | None = None, loop_hook: Callable | None = None, max_paths: int = 512, lenient: bool = False):
        self.where = where
        self.ev_hook = ev_hook
        self.loop_hook = loop_hook if loop_hook is not None else summarise_loop
        self.max_paths = max_paths
        self.lenient = lenient  # statements outside the grammar forget what they may assign
        self.loops: list[LoopSummary] = []
        self.skipped: list[str] = []
        self.local_defs: dict[str, ast.FunctionDef] = {}

    def fail(self, node, msg):
        raise AnalysisError(f"{self.where}: {msg} (line {getattr(node, 'lineno', '?')})")

    # ------------------------------------------------------------ statements
    def run(self, body: list[ast.stmt], path: Path) -> list[Path]:
        paths = [path]
        for s in body:
            nxt: list[Path] = []
            for p in paths:
                if p.outcome is not None:
                    nxt.append(p)
                else:
                    nxt.extend(self.stmt(s, p))
            paths = nxt
            if len(paths) > self.max_paths:
                self.fail(s, "too many paths")
        return paths

    def stmt(self, s: ast.stmt, p: Path) -> list[Path]:
        if not self.lenient:
            return self._stmt(s, p)
        backup = p.fork()
        n_loops = len(self.loops)
        try:
            return self._stmt(s, p)
        except AnalysisError as err:
            del self.loops[n_loops:]
            self.skipped.append(f"{type(s).__name__}@{getattr(s, 'lineno', '?')}: {err}")
            havoc(s, backup)
            return [backup]

    def _stmt(self, s: ast.stmt, p: Path) -> list[Path]:
        if isinstance(s, (ast.Pass, ast.Import, ast.ImportFrom, ast.FunctionDef)):
            if isinstance(s, ast.FunctionDef):
                p.env[s.name] = sp.Symbol(s.name)
                self.local_defs[s.name] = s
            return [p]
        if isinstance(s, ast.Assert):
            p.events.append(("assert", s.test))
            return [p]
        if isinstance(s, ast.Expr):
            if isinstance(s.value, ast.Constant):
                return [p]
            out = []
            for q, _ in self.ev(s.value, p):
                out.append(q)
            return out
        if isinstance(s, (ast.Assign, ast.AnnAssign)):
            if isinstance(s, ast.AnnAssign):
                if s.value is None:
                    return [p]
                targets = [s.target]
            else:
                targets = s.targets
            out = []
            for q, v in self.ev(s.value, p):
                for t in targets:
                    self.assign(t, v, q)
                out.append(q)
            return out
        if isinstance(s, ast.AugAssign):
            node = ast.BinOp(left=_as_load(s.target), op=s.op, right=s.value)
            ast.copy_location(node, s)
            ast.fix_missing_locations(node)
            out = []
            for q, v in self.ev(node, p):
                self.assign(s.target, v, q)
                out.append(q)
            return out
        if isinstance(s, ast.Return):
            out = []
            if s.value is None:
                p.outcome = ("return", None)
                return [p]
            for q, v in self.ev(s.value, p):
                q.outcome = ("return", v)
                out.append(q)
            return out
        if isinstance(s, ast.Raise):
            name = dotted(s.exc.func if isinstance(s.exc, ast.Call) else s.exc) if s.exc is not None else "reraise"
            p.outcome = ("raise", name)
            return [p]
        if isinstance(s, ast.If):
            out = []
            for q, c in self.cond(s.test, p):
                out.extend(self.run(s.body if c else s.orelse, q))
            return out
        if isinstance(s, ast.For) and self.loop_hook is not None:
            r = self.loop_hook(s, p, self)
            if r is not NotImplemented:
                return r
        self.fail(s, f"statement {type(s).__name__} outside the grammar")
        return []

    def assign(self, t: ast.expr, v, p: Path) -> None:
        if isinstance(t, ast.Name):
            p.env[t.id] = v
        elif isinstance(t, (ast.Tuple, ast.List)):
            if not isinstance(v, tuple) or len(v) != len(t.elts):
                self.fail(t, "cannot unpack")
            for a, b in zip(t.elts, v):
                self.assign(a, b, p)
        elif isinstance(t, ast.Subscript) and isinstance(t.value, ast.Name) and isinstance(p.env.get(t.value.id), PyList):
            (q, key), = self.ev(t.slice, p)  # keys never fork
            p.env[t.value.id].stores.append((key, v))
        elif isinstance(t, ast.Attribute):
            p.events.append(("setattr", self._term_of(t.value, p), t.attr, v, t))
        elif isinstance(t, ast.Subscript):
            (q, key), = self.ev(t.slice, p) if not isinstance(t.slice, ast.Slice) else [(p, self._slice(t.slice, p))]
            p.events.append(("setitem", self._term_of(t.value, p), key, v, t))
        else:
            self.fail(t, "assignment target outside the grammar")

    def _term_of(self, e: ast.expr, p: Path):
        (q, v), = self.ev(e, p)
        return _as_term(v)

    def _slice(self, s: ast.Slice, p: Path) -> SliceV:
        def one(x):
            if x is None:
                return None
            (q, v), = self.ev(x, p)
            return v

        return SliceV(one(s.lower), one(s.upper), one(s.step))

    # ------------------------------------------------------------ conditions
    def cond(self, e: ast.expr, p: Path) -> list[tuple[Path, bool]]:
        """fork on a condition: list of (path, truth value)"""
        if isinstance(e, ast.UnaryOp) and isinstance(e.op, ast.Not):
            return [(q, not c) for q, c in self.cond(e.operand, p)]
        if isinstance(e, ast.BoolOp):
            is_and = isinstance(e.op, ast.And)
            todo = [(p, None)]
            for sub in e.values:
                nxt = []
                for q, c in todo:
                    if c is not None and c != is_and:  # short circuit reached
                        nxt.append((q, c))
                        continue
                    nxt.extend(self.cond(sub, q))
                todo = nxt
            return todo
        out = []
        for q, v in self.ev(e, p):
            b = self.truth(v)
            if b is True or b is False:
                out.append((q, b))
                continue
            # consistent with earlier guards on this path?
            known = [pol for g, pol in q.guards if g == b]
            known_neg = [not pol for g, pol in q.guards if g == sp.Not(b)]
            if known or known_neg:
                out.append((q, (known or known_neg)[0]))
                continue
            q2 = q.fork()
            q.guards.append((b, True))
            q2.guards.append((b, False))
            out += [(q, True), (q2, False)]
        return out

    def truth(self, v):
        if isinstance(v, bool):
            return v
        if v is None:
            return False
        if v == sp.true:
            return True
        if v == sp.false:
            return False
        if isinstance(v, sp.Integer):
            return v != 0
        if isinstance(v, PyList):
            return F("truth")(v.term())
        if isinstance(v, tuple):
            return len(v) > 0
        if isinstance(v, sp.Basic):
            if isinstance(v, (sp.Rel, sp.Symbol)) or v.is_Boolean or isinstance(v, sp.core.function.AppliedUndef):
                return v
            return sp.Ne(v, 0)
        return F("truth")(_as_term(v))

    # ------------------------------------------------------------ expressions
    def ev(self, e: ast.expr, p: Path) -> list[tuple[Path, Any]]:
        """evaluate; forks only for conditional expressions whose test is undecided and
        marked for forking (default: IfExp becomes a Piecewise, no fork)"""
        return [(p, self.ev1(e, p))]

    def ev1(self, e: ast.expr, p: Path):
        if self.ev_hook is not None:
            r = self.ev_hook(e, p, self)
            if r is not NotImplemented:
                return r
        if isinstance(e, ast.Constant):
            v = e.value
            if v is None:
                return None
            if isinstance(v, bool):
                return v
            if isinstance(v, int):
                return sp.Integer(v)
            if v is Ellipsis:
                return ELLIPSIS
            if isinstance(v, float):
                return sp.Float(v)
            if isinstance(v, str):
                return F("str")(sp.Symbol(repr(v)))
            self.fail(e, f"constant {v!r}")
        if isinstance(e, ast.Name):
            if e.id in p.env:
                return p.env[e.id]
            if e.id == "Ellipsis":
                return ELLIPSIS
            return sp.Symbol(e.id)
        if isinstance(e, ast.Tuple):
            out = []
            for x in e.elts:
                if isinstance(x, ast.Starred):
                    v = self.ev1(x.value, p)
                    if isinstance(v, tuple):
                        out.extend(v)
                    elif isinstance(v, PyList) and v.items is not None and not v.stores and not v.appended:
                        out.extend(v.items)
                    else:
                        out.append(StarV(v.copy() if isinstance(v, PyList) else v))
                else:
                    out.append(self.ev1(x, p))
            return tuple(out)
        if isinstance(e, ast.List):
            if any(isinstance(x, ast.Starred) for x in e.elts):
                self.fail(e, "starred list literal")
            return PyList(items=[self.ev1(x, p) for x in e.elts])
        if isinstance(e, ast.UnaryOp):
            v = self.ev1(e.operand, p)
            if isinstance(e.op, ast.USub):
                return -self._num(v, e)
            if isinstance(e.op, ast.UAdd):
                return self._num(v, e)
            if isinstance(e.op, ast.Not):
                b = self.truth(v)
                return (not b) if isinstance(b, bool) else sp.Not(b)
        if isinstance(e, ast.BinOp):
            a = self.ev1(e.left, p)
            b = self.ev1(e.right, p)
            if isinstance(e.op, ast.Mult):
                for seq, cnt in ((a, b), (b, a)):
                    if isinstance(seq, PyList) and seq.items is not None and len(seq.items) == 1 and not seq.stores:
                        return PyList(repeat=(seq.items[0], self._num(cnt, e)))
                    if isinstance(seq, tuple) and len(seq) == 1:
                        return F("repeat")(_as_term(seq[0]), self._num(cnt, e))
            if isinstance(e.op, ast.Add) and isinstance(a, tuple) and isinstance(b, tuple):
                return a + b
            if isinstance(a, (tuple, PyList)) or isinstance(b, (tuple, PyList)):
                return F("binop_" + type(e.op).__name__)(_as_term(a), _as_term(b))
            a, b = self._num(a, e), self._num(b, e)
            if isinstance(e.op, ast.Add):
                return a + b
            if isinstance(e.op, ast.Sub):
                return a - b
            if isinstance(e.op, ast.Mult):
                return a * b
            if isinstance(e.op, ast.Pow):
                return a**b
            if isinstance(e.op, ast.FloorDiv):
                return sp.floor(a / b)
            if isinstance(e.op, ast.Mod):
                return sp.Mod(a, b)
            if isinstance(e.op, ast.Div):
                return a / b
            self.fail(e, f"operator {type(e.op).__name__}")
        if isinstance(e, ast.Compare):
            if len(e.ops) != 1:
                self.fail(e, "chained comparison")
            a = self.ev1(e.left, p)
            b = self.ev1(e.comparators[0], p)
            op = e.ops[0]
            if isinstance(op, (ast.Is, ast.IsNot)):
                neg = isinstance(op, ast.IsNot)
                if a is None and b is None:
                    return not neg
                if (a is None) != (b is None):
                    other = b if a is None else a
                    if isinstance(other, (sp.Integer, tuple, PyList, bool)):
                        return neg
                    t = F("is_none")(_as_term(other))
                    return sp.Not(t) if neg else t
                t = F("is_")(_as_term(a), _as_term(b))
                return sp.Not(t) if neg else t
            if a is None or b is None:
                if isinstance(op, ast.Eq):
                    return a is None and b is None if (a is None and b is None) else F("eq_none")(_as_term(a if b is None else b))
                self.fail(e, "ordering comparison with None")
            if isinstance(a, (tuple, PyList)) or isinstance(b, (tuple, PyList)):
                return F("cmp_" + type(op).__name__)(_as_term(a), _as_term(b))
            a, b = self._num(a, e), self._num(b, e)
            rel = {ast.Lt: sp.Lt, ast.LtE: sp.Le, ast.Gt: sp.Gt, ast.GtE: sp.Ge, ast.Eq: sp.Eq, ast.NotEq: sp.Ne}.get(type(op))
            if rel is None:
                return F("cmp_" + type(op).__name__)(a, b)
            r = rel(a, b)
            return bool(r) if r in (sp.true, sp.false) else r
        if isinstance(e, ast.BoolOp):
            vals = [self.truth(self.ev1(x, p)) for x in e.values]
            vals = [sp.true if v is True else sp.false if v is False else v for v in vals]
            r = sp.And(*vals) if isinstance(e.op, ast.And) else sp.Or(*vals)
            return bool(r) if r in (sp.true, sp.false) else r
        if isinstance(e, ast.IfExp):
            t = self.truth(self.ev1(e.test, p))
            a = self.ev1(e.body, p)
            b = self.ev1(e.orelse, p)
            if t is True:
                return a
            if t is False:
                return b
            if isinstance(t, sp.Not):  # `a if not c else b` is `b if c else a`
                t, a, b = t.args[0], b, a
            return F("ifexp")(t, _as_term(a), _as_term(b))
        if isinstance(e, ast.Attribute):
            base = self.ev1(e.value, p)
            return F("attr_" + e.attr)(_as_term(base))
        if isinstance(e, ast.Subscript):
            base = self.ev1(e.value, p)
            if isinstance(e.slice, ast.Slice):
                sl = self._slice(e.slice, p)
                p.events.append(("slice", _as_term(base), sl, e))
                if isinstance(base, tuple) and all(x is None or isinstance(x, sp.Integer) for x in (sl.lo, sl.hi, sl.step)):
                    return base[slice(*(None if x is None else int(x) for x in (sl.lo, sl.hi, sl.step)))]
                return F("getslice")(_as_term(base), _as_term(sl))
            key = self.ev1(e.slice, p)
            if isinstance(base, PyList):
                return base.load(self._num(key, e))
            if isinstance(base, tuple) and isinstance(key, sp.Integer) and not any(isinstance(x, StarV) for x in base):
                if -len(base) <= int(key) < len(base):
                    return base[int(key)]
            return F("elem")(_as_term(base), _as_term(key))
        if isinstance(e, ast.Call):
            return self.call(e, p)
        if isinstance(e, ast.JoinedStr):
            return F("fstring")(sp.Symbol(f"s{getattr(e, 'lineno', 0)}"))
        self.fail(e, f"expression {type(e).__name__} outside the grammar")

    def _num(self, v, node):
        if isinstance(v, bool):
            return sp.Integer(int(v))
        if isinstance(v, sp.Basic):
            return v
        self.fail(node, f"arithmetic on non-numeric value {v!r}")

    def call(self, e: ast.Call, p: Path):
        fn = dotted(e.func)
        if any(isinstance(a, ast.Starred) for a in e.args) or any(k.arg is None for k in e.keywords):
            args = []
            for a in e.args:
                v = self.ev1(a.value if isinstance(a, ast.Starred) else a, p)
                args.append(F("star")(_as_term(v)) if isinstance(a, ast.Starred) else _as_term(v))
            kws = [(k.arg or "**", _as_term(self.ev1(k.value, p))) for k in e.keywords]
            return self._opaque_call(e, p, args, kws)
        args = [self.ev1(a, p) for a in e.args]
        kws = [(k.arg, self.ev1(k.value, p)) for k in e.keywords]
        if fn == "len" and len(args) == 1 and not kws:
            a = args[0]
            if isinstance(a, PyList):
                return a.length()
            if isinstance(a, tuple) and not any(isinstance(x, StarV) for x in a):
                return sp.Integer(len(a))
            return F("len")(_as_term(a))
        if fn == "slice" and not kws and 1 <= len(args) <= 3:
            if len(args) == 1:
                return SliceV(None, args[0])
            return SliceV(*args)
        if fn in ("list", "tuple") and len(args) == 1 and not kws:
            a = args[0]
            if isinstance(a, PyList):
                return a.copy() if fn == "list" else (tuple(a.items) if a.items is not None and not a.stores and not a.appended and not a.extended else F("tuple")(a.term()))
            if isinstance(a, tuple):
                return PyList(items=list(a)) if fn == "list" else a
            return PyList(base=F("list")(_as_term(a))) if fn == "list" else F("tuple")(_as_term(a))
        if fn in ("int", "bool") and len(args) == 1 and not kws and isinstance(args[0], (sp.Integer, bool)):
            return sp.Integer(int(args[0])) if fn == "int" else bool(args[0])
        if fn in ("max", "min") and not kws and all(isinstance(a, sp.Basic) for a in args) and len(args) >= 2:
            return (sp.Max if fn == "max" else sp.Min)(*args)
        if isinstance(e.func, ast.Attribute) and isinstance(e.func.value, ast.Name) and isinstance(p.env.get(e.func.value.id), PyList):
            lst: PyList = p.env[e.func.value.id]
            if e.func.attr == "append" and len(args) == 1 and not kws:
                p.events.append(("append", e.func.value.id, args[0], e))
                lst.appended.append(args[0])
                return None
            if e.func.attr == "extend" and len(args) == 1 and not kws:
                p.events.append(("extend", e.func.value.id, args[0], e))
                lst.extended.append(args[0])
                return None
            if e.func.attr == "copy" and not args and not kws:
                return lst.copy()
        return self._opaque_call(e, p, [_as_term(a) for a in args], [(k, _as_term(v)) for k, v in kws])

    def _opaque_call(self, e: ast.Call, p: Path, args: list, kws: list):
        if isinstance(e.func, ast.Attribute):
            recv = _as_term(self.ev1(e.func.value, p))
            head = F("call_" + e.func.attr)
            args = [recv, *args]
        elif isinstance(e.func, ast.Name) and e.func.id not in p.env:
            head = F("call_" + e.func.id)
        else:
            head = F("call")
            args = [_as_term(self.ev1(e.func, p)), *args]
        kterms = [F("kw_" + k)(v) for k, v in sorted(kws, key=lambda kv: kv[0])]
        t = head(*args, *kterms)
        p.events.append(("call", t, e))
        return t


def assigned_names(node: ast.AST) -> set[str]:
    """names a statement may rebind or mutate (stores, aug-assignments, method calls on a
    bare name, subscript stores into a bare name)"""
    out: set[str] = set()
    for n in ast.walk(node):
        if isinstance(n, ast.Name) and isinstance(n.ctx, (ast.Store, ast.Del)):
            out.add(n.id)
        elif isinstance(n, ast.Call) and isinstance(n.func, ast.Attribute) and isinstance(n.func.value, ast.Name):
            out.add(n.func.value.id)
        elif isinstance(n, ast.Subscript) and isinstance(n.ctx, ast.Store) and isinstance(n.value, ast.Name):
            out.add(n.value.id)
    return out


_havoc_ids = itertools.count(1)


def havoc(node: ast.AST, p: Path) -> None:
    k = next(_havoc_ids)
    for name in assigned_names(node):
        if name in p.env:
            old = p.env[name]
            sym = sp.Symbol(f"{name}?{k}")
            p.env[name] = PyList(base=sym) if isinstance(old, PyList) else sym


def has_havoc(v) -> bool:
    """does a value depend on something a skipped (out-of-grammar) statement assigned?"""
    t = _as_term(v)
    return isinstance(t, sp.Basic) and any("?" in x.name for x in t.free_symbols)


@dataclass
class LoopSummary:
    """one symbolic iteration of a ``for`` loop"""

    node: ast.For
    pre_env: dict  # values at loop entry
    carried: dict  # name -> symbol standing for the value at the start of an iteration
    iter_value: Any
    target: Any  # value(s) bound to the loop target
    paths: list  # Paths of one iteration (outcome None = reaches the end of the body)
    outer: Path | None = None


def summarise_loop(s: ast.For, p: Path, ev: "SymEval"):
    """default loop hook: run the body once on symbolic loop-carried values, record the
    summary in ``ev.loops``; after the loop the carried values are unknown"""
    if s.orelse:
        ev.fail(s, "for-else")
    it = ev.ev1(s.iter, p)
    carried_names = assigned_names(ast.Module(body=s.body, type_ignores=[]))
    q = p.fork()
    q.events = []
    carried = {}
    for name in sorted(carried_names):
        if name in q.env:
            old = q.env[name]
            sym = sp.Symbol(f"{name}@k")
            carried[name] = sym
            q.env[name] = PyList(base=sym) if isinstance(old, PyList) else sym
    # loop target
    it_term = _as_term(it)
    tgt: Any
    if isinstance(s.target, ast.Name):
        tgt = F("item")(it_term)
        q.env[s.target.id] = tgt
    elif isinstance(s.target, ast.Tuple) and head_name(it_term) == "call_enumerate" and len(s.target.elts) == 2 and all(isinstance(t, ast.Name) for t in s.target.elts):
        cnt = sp.Symbol(f"{s.target.elts[0].id}@k")
        inner = positional_args(it_term)[0]
        tgt = (cnt, F("elem")(inner, cnt))
        q.env[s.target.elts[0].id], q.env[s.target.elts[1].id] = tgt
    elif isinstance(s.target, ast.Tuple) and all(isinstance(t, ast.Name) for t in s.target.elts):
        tgt = tuple(F("unpack")(F("item")(it_term), sp.Integer(i)) for i in range(len(s.target.elts)))
        for t, v in zip(s.target.elts, tgt):
            q.env[t.id] = v
    else:
        ev.fail(s, "loop target outside the grammar")
    pre_env = {k: (v.copy() if isinstance(v, PyList) else v) for k, v in p.env.items()}
    summary = LoopSummary(node=s, pre_env=pre_env, carried=carried, iter_value=it, target=tgt, paths=[], outer=p)
    idx = len(ev.loops)
    ev.loops.append(summary)
    summary.paths = ev.run(s.body, q)
    # after the loop
    k = next(_havoc_ids)
    for name in carried_names:
        old = p.env.get(name)
        post = [pp.env.get(name) for pp in summary.paths if pp.outcome is None]
        sym = sp.Symbol(f"{name}@end{idx}")
        if old is None and not post:
            continue
        p.env[name] = PyList(base=sym) if isinstance(old, PyList) or any(isinstance(x, PyList) for x in post) else sym
    for t in ast.walk(s.target):
        if isinstance(t, ast.Name):
            p.env[t.id] = sp.Symbol(f"{t.id}@end{idx}")
    return [p]


def func_params(fi: FuncInfo, skip_self: bool = True) -> list[str]:
    a = fi.node.args
    names = [x.arg for x in a.posonlyargs + a.args]
    if skip_self and names and names[0] in ("self", "cls"):
        names = names[1:]
    return names + [x.arg for x in a.kwonlyargs]


def kwarg_term(t, name: str):
    """value of keyword ``name`` in an uninterpreted call term"""
    for a in t.args:
        if getattr(a.func, "__name__", "") == "kw_" + name:
            return a.args[0]
    return None


def positional_args(t) -> list:
    return [a for a in t.args if not getattr(a.func, "__name__", "").startswith("kw_")]


def head_name(t) -> str:
    return getattr(getattr(t, "func", None), "__name__", "")

#!/venv/bin/python
"""evaluate seeded changes of batch 3: tools/eval_seed3.py <ID>:<k>[:<dest-k>] ... [--no-suite] [-n N]

per change (source /tmp/seed3/<ID>/_out/change<k>):
1. scratch worktree of /repo HEAD under /tmp/evalwt-<ID>-<k>: demo must PASS pristine, FAIL with the patch;
2. full test-suite in that worktree with the patch (must still pass);
3. every check (quick tier) on a scratch copy of /repo's tree with the patch (PDELINT_REPO; /repo untouched);
4. store /verif/seeded/<ID>-<dest-k>/{patch.diff,demo.py,notes.md,meta.json}; the worktree is removed.
"""
import json, os, shutil, subprocess, sys, tempfile, time
from pathlib import Path

PY = "/venv/bin/python"
args = sys.argv[1:]
run_suite = "--no-suite" not in args
nproc = 6
if "-n" in args:
    nproc = int(args[args.index("-n") + 1])
base = "/tmp/seed3"
offset = 2
if "--base" in args:
    base = args[args.index("--base") + 1]
if "--offset" in args:
    offset = int(args[args.index("--offset") + 1])
specs = [a for a in args if ":" in a]


def sh(cmd, cwd=None, env=None, timeout=7200):
    p = subprocess.run(cmd, shell=True, cwd=cwd, env=env, capture_output=True, text=True, timeout=timeout)
    return p.returncode, (p.stdout + p.stderr)


def one(spec):
    parts = spec.split(":")
    ID, K = parts[0], parts[1]
    DK = parts[2] if len(parts) > 2 else str(int(K) + offset)
    src = Path(f"{base}/{ID}/_out/change{K}")
    wt = Path(f"{base}/{ID}")  # the demos assert that `pde` is imported from this very worktree
    out = Path(f"/verif/seeded/{ID}-{DK}")
    meta = {"property": ID, "change": int(DK), "batch": int(base.rstrip("/")[-1]) if base.rstrip("/")[-1].isdigit() else 0, "source": str(src)}
    patch, demo = src / "patch.diff", src / "demo.py"
    assert patch.exists() and demo.exists(), f"{src}: patch.diff / demo.py missing"
    rc, o = sh("git status --porcelain --untracked-files=no", cwd=wt)
    assert rc == 0 and o.strip() == "", f"{wt} is not pristine: {o}"
    old = {}
    if out.joinpath("meta.json").exists():
        old = json.loads(out.joinpath("meta.json").read_text())
    try:
        wenv = dict(os.environ, PYTHONPATH=str(wt))
        demo_cmd = f"{PY} _out/change{K}/demo.py"
        rc0, o0 = sh(demo_cmd, cwd=wt, env=wenv, timeout=3600)
        meta["demo_cmd"] = f"cd <worktree> && PYTHONPATH=<worktree> {demo_cmd}"
        meta["demo_pristine"] = {"rc": rc0, "tail": o0.strip().splitlines()[-3:]}
        rc, o = sh(f"git apply {patch}", cwd=wt)
        meta["patch_applies"] = rc == 0
        if rc != 0:
            meta["apply_error"] = o[-500:]
        else:
            rc1, o1 = sh(demo_cmd, cwd=wt, env=wenv, timeout=3600)
            meta["demo_patched"] = {"rc": rc1, "tail": o1.strip().splitlines()[-4:]}
            if not run_suite and old.get("suite_patched"):
                meta["suite_patched"] = old["suite_patched"]
            if run_suite:
                t = time.time()
                rc2, o2 = sh(f"{PY} -m pytest -q -p no:cacheprovider --timeout=900 -n {nproc} tests", cwd=wt, env=wenv, timeout=10800)
                last = [l for l in o2.strip().splitlines() if " passed" in l or " failed" in l or "error" in l.lower()][-3:]
                meta["suite_patched"] = {"rc": rc2, "ok": rc2 == 0, "summary": last[-1] if last else "", "tail": last, "wall_s": round(time.time() - t)}
            # checks on a scratch copy
            tmp = tempfile.mkdtemp(prefix=f"seedchk-{ID}-{K}-")
            try:
                repo = tmp + "/repo"
                subprocess.check_call(["rsync", "-a", "--exclude", ".git", "--exclude", "__pycache__", "--exclude", "_out", "/repo/", repo + "/"])
                rcp, op = sh(f"git apply --unsafe-paths --directory {repo} {patch}", cwd="/")
                if rcp != 0:
                    rcp, op = sh(f"patch -s -p1 -d {repo} -i {patch}")
                meta["patch_applies_to_repo_head"] = rcp == 0
                env = dict(os.environ, PDELINT_NO_EVIDENCE="1", PDELINT_REPLAY_DIR=tmp + "/replay", PDELINT_REPO=repo)
                fired = {}
                procs = {f"C{n:02d}": subprocess.Popen(["bin/check", f"C{n:02d}", "--tier", "quick"], cwd="/verif", env=env, stdout=subprocess.PIPE, stderr=subprocess.STDOUT, text=True) for n in range(1, 21)}
                for pid, p in procs.items():
                    o, _ = p.communicate(timeout=3600)
                    if p.returncode != 0:
                        lines = [l.strip()[:400] for l in o.splitlines() if l.strip().startswith("finding:") or l.startswith("ANALYSIS-ERROR") or l.startswith("VIOLATION")]
                        fired[pid] = {"rc": p.returncode, "lines": lines[:4]}
                meta["checks_fired"] = fired
                meta["checks_fired_latest"] = fired
                meta["detected_latest"] = sorted(k for k, v in fired.items() if v["rc"] == 1)
                meta["detected_by_own_property"] = ID in fired and fired[ID]["rc"] == 1
                meta["detected_by_any"] = any(v["rc"] == 1 for v in fired.values())
            finally:
                shutil.rmtree(tmp, ignore_errors=True)
    finally:
        sh("git checkout -- .", cwd=wt)
    valid = meta.get("patch_applies") and meta["demo_pristine"]["rc"] == 0 and meta.get("demo_patched", {}).get("rc") == 1 and meta.get("suite_patched", {}).get("rc") == 0
    meta["valid_seed"] = bool(valid)
    meta["verif_commit_at_evaluation"] = sh("git -C /verif rev-parse --short HEAD")[1].strip()
    out.mkdir(parents=True, exist_ok=True)
    shutil.copy(patch, out / "patch.diff")
    shutil.copy(demo, out / "demo.py")
    if (src / "notes.md").exists():
        shutil.copy(src / "notes.md", out / "notes.md")
    (out / "meta.json").write_text(json.dumps(meta, indent=1, ensure_ascii=False) + "\n")
    print(f"{ID}-{DK}", json.dumps({k: meta.get(k) for k in ("valid_seed", "detected_by_own_property", "detected_by_any")}), {k: v["rc"] for k, v in meta.get("checks_fired", {}).items()}, meta.get("suite_patched", {}).get("summary", ""), flush=True)


for s in specs:
    try:
        one(s)
    except Exception as e:  # noqa: BLE001
        print(s, "ERROR", e, flush=True)

#!/venv/bin/python
"""re-run checks against every seeded change on scratch copies of /repo's working tree
(PDELINT_REPO), several seeds at a time; records meta['checks_fired_latest'].
usage: recheck_seeds_par.py [-j N] [--checks C01,C02] [seed ids...]"""
import glob, json, os, shutil, subprocess, sys, tempfile
from concurrent.futures import ThreadPoolExecutor

args = sys.argv[1:]
jobs = 16
checks = [f"C{n:02d}" for n in range(1, 21)]
own_only = False
while args and args[0].startswith("-"):
    a = args.pop(0)
    if a == "-j":
        jobs = int(args.pop(0))
    elif a == "--checks":
        checks = args.pop(0).split(",")
    elif a == "--own":
        own_only = True
only = set(args)
sem_pool = ThreadPoolExecutor(jobs)


def run_check(cid, repo, sid):
    env = dict(os.environ, PDELINT_NO_EVIDENCE="1", PDELINT_REPLAY_DIR=f"{repo}.replay", PDELINT_REPO=repo)
    p = subprocess.run(["bin/check", cid, "--tier", "quick"], cwd="/verif", env=env, stdout=subprocess.PIPE, stderr=subprocess.STDOUT, text=True, timeout=3600)
    return cid, p.returncode, p.stdout


def one(d):
    sid = os.path.basename(d.rstrip("/"))
    m = json.load(open(d + "meta.json"))
    tmp = tempfile.mkdtemp(prefix=f"seed-{sid}-")
    repo = tmp + "/repo"
    try:
        subprocess.check_call(["rsync", "-a", "--exclude", ".git", "--exclude", "__pycache__", "/repo/", repo + "/"])
        if subprocess.call(["git", "apply", "--unsafe-paths", "--directory", repo, d + "patch.diff"], cwd="/") != 0:
            if subprocess.call(["patch", "-s", "-p1", "-d", repo, "-i", d + "patch.diff"]) != 0:
                return sid, {"error": "patch does not apply"}
        cs = [m["property"]] if own_only else checks
        futs = [sem_pool.submit(run_check, c, repo, sid) for c in cs]
        fired = dict(m.get("checks_fired_latest", {})) if (own_only or len(cs) < 20) else {}
        fired.pop("error", None)
        for f in futs:
            cid, rc, out = f.result()
            fired.pop(cid, None)
            if rc != 0:
                lines = [l.strip()[:400] for l in out.splitlines() if l.strip().startswith("finding:") or l.startswith("ANALYSIS-ERROR") or l.startswith("VIOLATION")]
                fired[cid] = {"rc": rc, "lines": lines[:4]}
        return sid, fired
    finally:
        shutil.rmtree(tmp, ignore_errors=True)


seeds = [d for d in sorted(glob.glob("/verif/seeded/*/")) if not only or os.path.basename(d.rstrip("/")) in only]
with ThreadPoolExecutor(max(1, jobs // 4)) as outer:
    for sid, fired in outer.map(one, seeds):
        d = f"/verif/seeded/{sid}/"
        m = json.load(open(d + "meta.json"))
        m["checks_fired_latest"] = fired
        m["detected_latest"] = sorted(k for k, v in fired.items() if isinstance(v, dict) and v.get("rc") == 1)
        json.dump(m, open(d + "meta.json", "w"), indent=1, ensure_ascii=False)
        print(sid, {k: (v["rc"] if isinstance(v, dict) else v) for k, v in fired.items()}, flush=True)

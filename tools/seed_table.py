#!/venv/bin/python
"""print a markdown table of the seeded changes and which checks detect them (re-reads seeded/*/meta.json)"""
import json, glob, os
rows = []
for d in sorted(glob.glob("/verif/seeded/*/")):
    m = json.load(open(d + "meta.json"))
    notes = open(d + "notes.md").read().strip().splitlines() if os.path.exists(d + "notes.md") else []
    title = next((l.strip("# ").strip() for l in notes if l.strip()), "")[:110]
    fired = m.get("checks_fired_latest", m.get("checks_fired", {}))
    det = [k for k, v in fired.items() if v["rc"] == 1]
    err = [k for k, v in fired.items() if v["rc"] == 2]
    suite = m.get("suite_patched", {})
    rows.append((os.path.basename(d.rstrip("/")), ("superseded" if m.get("superseded") else "yes" if m.get("valid_seed") else "NO"), suite.get("summary", "")[:24] if suite else "-", ", ".join(det) or "—", ", ".join(err) or "", title))
print("| seed | valid | suite with patch | detected by | analysis-error in | what |")
print("|---|---|---|---|---|---|")
for r in rows:
    print("| " + " | ".join(r) + " |")

#!/venv/bin/python
"""print python source without docstrings/comments (reading aid, not part of any check)"""
import ast, sys
src = open(sys.argv[1]).read()
t = ast.parse(src)
for n in ast.walk(t):
    if isinstance(n, (ast.FunctionDef, ast.ClassDef, ast.Module, ast.AsyncFunctionDef)):
        b = n.body
        if b and isinstance(b[0], ast.Expr) and isinstance(b[0].value, ast.Constant) and isinstance(b[0].value.value, str):
            n.body = b[1:] or [ast.Pass()]
only = sys.argv[2:] 
if only:
    for n in ast.walk(t):
        if isinstance(n,(ast.FunctionDef,ast.ClassDef)) and n.name in only:
            print(f"# --- {n.name} @ line {n.lineno}")
            print(ast.unparse(n)); print()
else:
    print(ast.unparse(t))

#!/venv/bin/python
"""quick look: run checks on batch-3 patches straight from /tmp/seed3 (scratch copies): quick_seed3.py C08 C09 ... [--all]"""
import os, shutil, subprocess, sys, tempfile
from concurrent.futures import ThreadPoolExecutor
BASE = "/tmp/seed3"
if "--base" in sys.argv:
    BASE = sys.argv[sys.argv.index("--base") + 1]
ids = [a for a in sys.argv[1:] if not a.startswith("-") and not a.startswith("/")]
allc = "--all" in sys.argv
def one(spec):
    ID, K = spec
    patch = f"{BASE}/{ID}/_out/change{K}/patch.diff"
    if not os.path.exists(patch):
        return f"{ID}:{K} no patch"
    tmp = tempfile.mkdtemp(prefix=f"q3-{ID}-{K}-"); repo = tmp + "/repo"
    try:
        subprocess.check_call(["rsync", "-a", "--exclude", ".git", "--exclude", "__pycache__", "--exclude", "_out", "/repo/", repo + "/"])
        if subprocess.call(f"patch -s -p1 -d {repo} -i {patch}", shell=True) != 0:
            return f"{ID}:{K} patch does not apply"
        env = dict(os.environ, PDELINT_NO_EVIDENCE="1", PDELINT_REPLAY_DIR=tmp + "/replay", PDELINT_REPO=repo)
        out = []
        for c in ([f"C{n:02d}" for n in range(1, 21)] if allc else [ID]):
            p = subprocess.run(["bin/check", c, "--tier", "quick"], cwd="/verif", env=env, capture_output=True, text=True)
            if p.returncode != 0:
                line = next((l.strip()[:260] for l in p.stdout.splitlines() if l.strip().startswith("finding:") or l.startswith("ANALYSIS-ERROR")), "")
                out.append(f"{c}={p.returncode} {line}")
        nf = f"{BASE}/{ID}/_out/change{K}/notes.md"
        title = open(nf).readline().strip()[:100] if os.path.exists(nf) else "(no notes yet)"
        return f"{ID}:{K} [{title}] -> " + ("; ".join(out) or "MISSED")
    finally:
        shutil.rmtree(tmp, ignore_errors=True)
with ThreadPoolExecutor(4) as ex:
    for r in ex.map(one, [(i, k) for i in ids for k in (1, 2)]):
        print(r, flush=True)

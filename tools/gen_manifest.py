#!/venv/bin/python
"""(re)generate MANIFEST.json from pdelint/manifest_data.py -- keeps it schema-valid"""
import json, sys
from pathlib import Path
sys.path.insert(0, str(Path(__file__).resolve().parent.parent))
from pdelint.manifest_data import CHECKS, NOT_APPLICABLE, NOTES, TEXT_ADDENDA
import jsonschema

props = [json.loads(l)["id"] for l in open(Path(__file__).resolve().parent.parent / "properties.jsonl")]
checks = []
for pid in props:
    if pid in CHECKS:
        c = CHECKS[pid]
        checks.append({
            "property_id": pid,
            "quick_cmd": f"bin/check {pid} --tier quick",
            "thorough_cmd": f"bin/check {pid} --tier thorough",
            "evidence_file": f"evidence/{pid}.json",
            "replay_cmd_template": "bin/check --replay {path}",
            "engine": "pdelint",
            "level_claimed": {"category": c["level"], "text": c["text"] + (" Also: " + TEXT_ADDENDA[pid] if pid in TEXT_ADDENDA else ""), "design_ref": f"DESIGN.md §3 {pid}"},
            "level_note": c["note"],
            "technique": c["technique"],
        })
na = [{"property_id": pid, "reason": NOT_APPLICABLE.get(pid, "check not built yet")} for pid in props if pid not in CHECKS]
man = {
    "version": 1,
    "setup_cmd": "/venv/bin/python -m pdelint.selfcheck --fast",
    "hooks": {
        "guard": "PYPDE_VERIF",
        "enable": "no hooks: static analysis reads /repo's working tree; nothing is built or instrumented",
        "baseline_off_cmd": "cd /repo && /venv/bin/python -m pytest -q -p no:cacheprovider --timeout=900",
        "source_commits": [],
        "add_only": True,
    },
    "engines": [
        {"name": "pdelint", "path": "pdelint/", "serves_properties": sorted(CHECKS), "kind_free_text": "repository-specific static analysis: ast index, abstract interpretation of numerical fragments into sympy terms, stencil tables, continuum oracle, CFG/dataflow rules"},
    ],
    "checks": checks,
    "notes": NOTES,
    "not_applicable": na,
}
schema = json.load(open("/root/.vp/MANIFEST.schema.json"))
jsonschema.validate(man, schema)
out = Path(__file__).resolve().parent.parent / "MANIFEST.json"
out.write_text(json.dumps(man, indent=1, ensure_ascii=False) + "\n")
print("MANIFEST.json written:", len(checks), "checks,", len(na), "not applicable")

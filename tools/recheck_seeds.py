#!/venv/bin/python
"""re-run every check against every seeded change (apply to /repo, run, undo) and record the
result as meta['checks_fired_latest']; the first evaluation stays in meta['checks_fired']."""
import glob, json, os, shutil, subprocess, sys

only = set(sys.argv[1:])
rc, o = subprocess.getstatusoutput("git -C /repo status --porcelain")
assert o.strip() == "", "/repo not clean"
for d in sorted(glob.glob("/verif/seeded/*/")):
    sid = os.path.basename(d.rstrip("/"))
    if only and sid not in only:
        continue
    m = json.load(open(d + "meta.json"))
    if subprocess.call(f"git -C /repo apply {d}patch.diff", shell=True) != 0:
        m["checks_fired_latest"] = {"error": "patch no longer applies to /repo HEAD"}
        json.dump(m, open(d + "meta.json", "w"), indent=1, ensure_ascii=False)
        print(sid, "patch does not apply")
        continue
    fired = {}
    try:
        env = dict(os.environ, PDELINT_NO_EVIDENCE="1", PDELINT_REPLAY_DIR=f"/tmp/replay-{sid}")
        procs = {f"C{n:02d}": subprocess.Popen(["bin/check", f"C{n:02d}", "--tier", "quick"], cwd="/verif", env=env, stdout=subprocess.PIPE, stderr=subprocess.STDOUT, text=True) for n in range(1, 21)}
        for pid, p in procs.items():
            out, _ = p.communicate(timeout=1800)
            if p.returncode != 0:
                lines = [l.strip()[:400] for l in out.splitlines() if l.strip().startswith("finding:") or l.startswith("ANALYSIS-ERROR")]
                fired[pid] = {"rc": p.returncode, "lines": lines[:3]}
    finally:
        subprocess.call("git -C /repo checkout -- .", shell=True)
        shutil.rmtree(f"/tmp/replay-{sid}", ignore_errors=True)
    m["checks_fired_latest"] = fired
    m["detected_latest"] = sorted(k for k, v in fired.items() if v["rc"] == 1)
    json.dump(m, open(d + "meta.json", "w"), indent=1, ensure_ascii=False)
    print(sid, {k: v["rc"] for k, v in fired.items()})

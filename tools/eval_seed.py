#!/venv/bin/python
"""evaluate one seeded change: tools/eval_seed.py <ID> <k> [--no-suite]

1. scratch worktree of /repo HEAD under /tmp/evalwt-<ID>-<k>: demo must PASS pristine, FAIL with the patch;
2. full test-suite in that worktree with the patch (must still pass);
3. apply the patch to /repo, run every check (quick, evidence not rewritten), undo;
4. store /verif/seeded/<ID>-<k>/{patch.diff,demo.py,notes.md,meta.json}.
"""
import json, os, shutil, subprocess, sys, time
from pathlib import Path

ID, K = sys.argv[1], sys.argv[2]
run_suite = "--no-suite" not in sys.argv
src = Path(f"/tmp/seed/{ID}/_out/change{K}")
wt = Path(f"/tmp/evalwt-{ID}-{K}")
out = Path(f"/verif/seeded/{ID}-{K}")
PY = "/venv/bin/python"


def sh(cmd, cwd=None, env=None, timeout=7200):
    p = subprocess.run(cmd, shell=True, cwd=cwd, env=env, capture_output=True, text=True, timeout=timeout)
    return p.returncode, (p.stdout + p.stderr)


meta = {"property": ID, "change": int(K), "source": str(src)}
patch = src / "patch.diff"
demo = src / "demo.py"
assert patch.exists() and demo.exists(), "patch.diff / demo.py missing"
sh(f"git -C /repo worktree remove --force {wt}")
rc, o = sh(f"git -C /repo worktree add -q --detach {wt} HEAD")
assert rc == 0, o
try:
    (wt / "_out" / f"change{K}").mkdir(parents=True)
    shutil.copy(demo, wt / "_out" / f"change{K}" / "demo.py")
    wenv = dict(os.environ, PYTHONPATH=str(wt))
    rc0, o0 = sh(f"{PY} _out/change{K}/demo.py", cwd=wt, env=wenv, timeout=1800)
    meta["demo_pristine"] = {"rc": rc0, "tail": o0.strip().splitlines()[-3:]}
    rc, o = sh(f"git apply {patch}", cwd=wt)
    meta["patch_applies"] = rc == 0
    if rc != 0:
        meta["apply_error"] = o[-500:]
    else:
        rc1, o1 = sh(f"{PY} _out/change{K}/demo.py", cwd=wt, env=wenv, timeout=1800)
        meta["demo_patched"] = {"rc": rc1, "tail": o1.strip().splitlines()[-3:]}
        if run_suite:
            t = time.time()
            rc2, o2 = sh(f"{PY} -m pytest -q -p no:cacheprovider --timeout=900 -n 8 tests", cwd=wt, env=wenv, timeout=7200)
            last = [l for l in o2.strip().splitlines() if " passed" in l or " failed" in l or "error" in l.lower()][-3:]
            meta["suite_patched"] = {"rc": rc2, "summary": last, "wall_s": round(time.time() - t)}
finally:
    sh(f"git -C /repo worktree remove --force {wt}")
# checks against /repo with the patch applied
rc, o = sh("git -C /repo status --porcelain")
assert o.strip() == "", "/repo is not clean: " + o
rc, o = sh(f"git -C /repo apply {patch}")
fired = {}
try:
    if rc == 0:
        env = dict(os.environ, PDELINT_NO_EVIDENCE="1", PDELINT_REPLAY_DIR=f"/tmp/replay-{ID}-{K}")
        procs = {}
        for n in range(1, 21):
            pid = f"C{n:02d}"
            procs[pid] = subprocess.Popen(["bin/check", pid, "--tier", "quick"], cwd="/verif", env=env, stdout=subprocess.PIPE, stderr=subprocess.STDOUT, text=True)
        for pid, p in procs.items():
            o, _ = p.communicate(timeout=1800)
            lines = [l for l in o.splitlines() if l.strip().startswith("finding:") or l.startswith("ANALYSIS-ERROR")]
            if p.returncode != 0:
                fired[pid] = {"rc": p.returncode, "lines": [l.strip()[:400] for l in lines[:4]]}
finally:
    sh("git -C /repo checkout -- .")
    shutil.rmtree(f"/tmp/replay-{ID}-{K}", ignore_errors=True)
meta["checks_fired"] = fired
meta["detected_by_own_property"] = ID in fired and fired[ID]["rc"] == 1
meta["detected_by_any"] = any(v["rc"] == 1 for v in fired.values())
valid = meta.get("patch_applies") and meta["demo_pristine"]["rc"] == 0 and meta.get("demo_patched", {}).get("rc") == 1 and (not run_suite or meta["suite_patched"]["rc"] == 0)
meta["valid_seed"] = bool(valid)
out.mkdir(parents=True, exist_ok=True)
shutil.copy(patch, out / "patch.diff")
shutil.copy(demo, out / "demo.py")
if (src / "notes.md").exists():
    shutil.copy(src / "notes.md", out / "notes.md")
(out / "meta.json").write_text(json.dumps(meta, indent=1, ensure_ascii=False) + "\n")
print(json.dumps({k: meta[k] for k in ("property", "change", "valid_seed", "detected_by_own_property", "detected_by_any")}), {k: v["rc"] for k, v in fired.items()})
